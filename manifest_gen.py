#!/usr/bin/env python3
"""Regenerates /verif/MANIFEST.json from the table below (run after editing)."""
import json, os, subprocess

HERE = os.path.dirname(os.path.abspath(__file__))

# property -> (level category, technique, level text, level note, design ref)
CLAIMED = {
    "C04": ("exploration",
            "property-based testing (rapid): exact-arithmetic (math/big) oracle over generated Go numeric values, block ranges, conditions and prefilter trees; end-to-end engine differential",
            "Generated search: every Go numeric kind (incl. named types, uintptr, huge unsigned, beyond-int64 floats) x all operators with boundary operands x block ranges folded through the library's own index functions x AND/OR trees, judged by an independent exact-arithmetic oracle; plus engine-level ingest/flush/merge/query cases. Exploration, not proof: absence is not established.",
            "Trusts math/big and the harness oracle's reading of the documented semantics (saturated bounds open-ended, NaN not indexed, partition \"\" not indexed).",
            "DESIGN.md section 5 C04"),
}

SEARCH_NOTE = ("Trusts the harness oracle's reading of README 'Search semantics' (independent JSON token walker, tokenizers, tree evaluation) "
               "and encoding/json; rows whose semantics the documentation leaves open (top-level \"\" key, invalid UTF-8 / surrogate escapes in raw JSON) impose no obligation; "
               "bloom filters can hide a missing index entry behind a false positive (half the cases use FPR<=1e-6).")

CLAIMED.update({
    "C01": ("exploration",
            "property-based testing (rapid): model-based differential — generated ingest/flush/restart/merge/external-writer histories and bloom/regex/prefilter query trees against an independent reference implementation of the search semantics",
            "Generated search over histories x configurations x queries with an oracle that shares no walker, tokenizer fast path, matcher or file reader with the library; every stored row the oracle says must match has to be returned. Includes external-writer files (absent filters, multi-chunk filter regions) and conforming MetaStore variants. Exploration: absence is not established.",
            SEARCH_NOTE, "DESIGN.md section 5 C01"),
    "C02": ("exploration",
            "property-based testing (rapid): same generated runs as C01 judged for exactness — no false positives, no duplicates, exact multiset without prefilter, whole-block granularity bracketed by metadata-satisfies / metadata-present for prefilters, stored world unchanged by queries",
            "Upper-bound oracle on the same generated space as C01; block membership is read back through the public helpers so the 'set of whole blocks' clause is checked on the data. Exploration.",
            SEARCH_NOTE, "DESIGN.md section 5 C02"),
    "C11": ("exploration",
            "property-based testing (rapid): metamorphic relation before/after Merge on generated populations (row multiset, partition, range coverage, query answers), with the independent search oracle for the prefilter superset clause",
            "Generated populations written by several engine configurations and the external writer, 1-3 merges under generated limits, queries run before and after each merge. Exploration.",
            SEARCH_NOTE, "DESIGN.md section 5 C11"),
    "C12": ("exploration",
            "property-based testing (rapid): invariant over generated merges — provenance of every output block and file derived from unique row ids, checked against the configured limits",
            "Same generated merges as C11; limits are checked on what merges produce, with limits drawn tight so that about half the cases have a binding limit. No claim beyond the generator's population sizes (<= ~12 files, <= ~10 blocks each).",
            "File size measured as sum of on-disk block sizes; provenance relies on the harness's unique row ids.", "DESIGN.md section 5 C12"),
})

CLAIMED.update({
    "C17": ("exploration",
            "property-based testing (rapid): differential against an independent file-format reader written from FILE_FORMAT.md, over files produced by generated flush/merge/restart histories; round-trip of stored bytes against the harness's own json.Marshal",
            "Every file left by a generated history is parsed by an independent reader (framing, CRCs, contiguity, region order, per-block compression/size/row count, recomputed distinct entry counts) and the public read helpers and MetaStore metadata must agree with it. Exploration.",
            "Trusts encoding/json, klauspost snappy/zstd decoders and bits-and-blooms decoding as used by the independent reader.", "DESIGN.md section 5 C17"),
    "C18": ("exploration",
            "property-based testing (rapid): invariant over generated files — every entry the independent walker/tokenizer emits for a stored row must test positive in the block's and file's real filters; minmax ranges/keys and partition ids checked against the model",
            "Coverage of all three filter kinds at both hierarchy levels, minmax ranges (math/big) and key sets, partition ids, on files from generated histories incl. merges with copied and combined blocks. Exploration; a bloom filter can mask a missing entry (half the cases use FPR<=1e-6).",
            SEARCH_NOTE, "DESIGN.md section 5 C18"),
    "C23": ("exploration",
            "property-based testing (rapid): invariants over Stats() after generated queries (clean runs on generated layouts; fault and early-termination scripts), recomputed from block contents read back independently",
            "Per-block and total accounting checked on every generated query; non-trivial cases have both skipped and processed blocks. Exploration.",
            "'prefilter-surviving' uses the library's public EvaluateDataBlockMetadata (judged separately by C04/C02).", "DESIGN.md section 5 C23"),
    "C24": ("exploration",
            "property-based testing (rapid): generated layouts and queries with every DataStore call recorded by a harness-owned store wrapper; expected pruning recomputed from the real filter bits via the public read helpers",
            "Opens and byte ranges actually read by each query are compared with what the file/block filters and the prefilter rule out, and with the extents the metadata declares; includes multi-chunk filter regions from external-writer files. Deterministic given the filter bits. Exploration.",
            "Only pruning implied by the bloom expression and the prefilter is demanded (the regex field guard may prune more).", "DESIGN.md section 5 C24"),
})

CLAIMED.update({
    "C03": ("exploration",
            "property-based testing (rapid): round-trip oracle (encoding/json) for fidelity plus snapshot/deep-mutation invariant over generated concurrent query schedules (early Close, held rows, later scans recycling pooled buffers)",
            "Generated rows (escapes, unicode, every numeric kind, raw JSON incl. duplicate keys, byte-identical duplicates) in layouts with several pool-eligible blocks; 1-6 concurrent query goroutines; every received row snapshotted, mutated and re-checked after further scans. Exploration: buffer reuse by sync.Pool is made likely, not forced.",
            "Trusts encoding/json as the reference decoder (as the property states) and reflect.DeepEqual.", "DESIGN.md section 5 C03"),
    "C25": ("exploration",
            "property-based testing (rapid): truth-table oracle — abstract boolean formulas built through constructors / raw structs / QueryBuilder scripts, evaluated by one engine query over a fixed 32-row dataset; JSON round-trip metamorphic check (same results, same re-marshal); arbitrary trees checked with the independent evaluator",
            "Each case compares a full 32-row truth table, so any difference between the written formula and the built/flattened/serialized tree is visible. Exploration over formulas of depth <= 3 and builder scripts of <= 6 calls.",
            "Builder sequences the documentation does not decide (Match after chained conditions) accept either reading; strings that are not valid UTF-8 are outside the JSON round-trip domain.", "DESIGN.md section 5 C25"),
    "C26": ("exploration",
            "property-based testing (rapid): statistical differential — each written filter is compared with a reference filter the harness builds for the true distinct entries at the configured rate (parameters and measured false-positive rate over the same absent probes)",
            "Entry counts from 1 to 20 000 (quick) / 300 000 (thorough), rates from 0.9 to 1e-4, block and file level, flushed and merged files. Statistical (7 sigma), not a proof.",
            "Assumes bits-and-blooms NewWithEstimates is the intended sizing rule (README: filters are sized from measured distinct entries).", "DESIGN.md section 5 C26"),
})

CLAIMED.update({
    "C19": ("exploration",
            "property-based testing (rapid) + Go native coverage-guided fuzzing (thorough tier): structured byte mutations and CRC-consistent hostile framing fields over engine-written files; oracle = no panic, allocation bound, in-bounds metadata, returned rows subset of written rows, exact-or-error with MetaStore-held metadata, clean Merge over a corrupted source",
            "hundreds (quick) to thousands (thorough) of structured corruptions plus native fuzz targets seeded with valid files; each case runs the public read helpers and queries in three store arrangements. Exploration: no absence claim for the unexplored byte space.",
            "Allocation measured via runtime.MemStats.TotalAlloc around single-goroutine helper calls; only the framing fields the property lists are set to hostile values.", "DESIGN.md section 5 C19"),
})

CLAIMED.update({
    "C06": ("fault_enumeration",
            "property-based testing (rapid) with exhaustive fault injection inside each generated history: the fault-free run numbers every store call, the history is re-executed once per call position (three failure shapes, provoked cleanup calls, sampled pairs); oracle = model of acknowledged batches vs. visibility on this engine / a fresh engine / after Merge",
            "Within each generated history every store-call position visible to the harness is enumerated, not sampled; histories themselves are sampled (tens in the quick tier, hundreds in the thorough tier). Covers CreateFile, Write (fail and short write), Close (fail and publish-then-fail), Abort, Update, TombstoneFile.",
            "Error-means-absent is judged with MemoryMetaStore (atomic Update) as the property states; with FileSystemDataStore as MetaStore only nil-means-visible is judged. Faults are one-shot.", "DESIGN.md section 5 C06"),
    "C13": ("fault_enumeration",
            "property-based testing (rapid) with exhaustive fault injection inside each generated population: every store call of a Merge (iterator, CreateFile, OpenFile, Read, Seek, Write, Close, Abort, Update, TombstoneFile) is failed once on a fresh copy; oracle = committed-or-unchanged invariant over MetaStore pointers, file bytes, row multiset, call-log order and the returned error; gated two-Merge schedule for ErrMergeInProgress",
            "Every call position of the fault-free Merge is enumerated per population (populations sampled: 12 quick / 300 thorough, most with several merge groups). The concurrency clause is checked with a harness-owned schedule (first Merge held inside CreateFile, second held at the end of its iteration until the first returns).",
            "MemoryMetaStore.Update is atomic; in-memory DataStore deletes tombstoned files immediately.", "DESIGN.md section 5 C13"),
})

SCHED_NOTE = ("The harness owns every store call (latency, one-shot failures, gates) and every client call; interleavings inside the engine that cross neither are left to the Go scheduler, GOMAXPROCS variation and repetition. "
              "Verdicts that depend on wall-clock time use generous allowances and must reproduce in three isolated re-executions.")

CLAIMED.update({
    "C05": ("exploration",
            "property-based testing (rapid): generated multi-client schedules (IngestRows/Flush/Start/Stop/Query/Merge, channel kinds, store latency and failures) with a history invariant — exactly one value per accepted batch once Stop returned nil",
            "hundreds (quick) to thousands (thorough) of generated schedules over engines started first/late/twice/never; every accepted batch's channel is observed for 0, 1 or >1 answers right after Stop and after a quiescence window.",
            SCHED_NOTE, "DESIGN.md section 5 C05"),
    "C07": ("exploration",
            "property-based testing (rapid): generated ingest/Flush schedules over slow stores with an order-observing oracle (newest-first polling of done channels, visibility query at each observed nil ack and at each Flush return)",
            "Acceptance order is known (one ingester); observation is sound because a later ack is only ever observed after it was sent. hundreds (quick) to thousands (thorough) of schedules, most with a flush in flight at the moment of observation.",
            SCHED_NOTE, "DESIGN.md section 5 C07"),
    "C08": ("exploration",
            "property-based testing (rapid): generated Stop schedules with wedged / ctx-ignoring stores, blocked producers, abandoned done channels and custom Context implementations (late AfterFunc); oracle over the recorded call history (logical clock of the store wrapper) plus bounded-time checks with confirm-by-replay",
            "hundreds (quick) to thousands (thorough) of schedules; most end in a deadline error with flushes queued behind the wedge. Checks refusal of new work, drain-before-nil, deadline + 350 ms, no CreateFile/Update after a deadline error, and that every receivable waiter gets a value.",
            SCHED_NOTE, "DESIGN.md section 5 C08"),
})

CLAIMED.update({
    "C09": ("exploration",
            "property-based testing (rapid): generated stall schedules (ctx-ignoring gate at a generated store call, hammering / trickling producers, Flush storms, stalls longer than MaxBufferedTime) with a configuration-derived bound on accepted-but-unanswered batches; drain check after release",
            "hundreds (quick) to thousands (thorough) of stalls; most have producers attempting >= 3x the bound. Over-bound verdicts must reproduce twice.",
            SCHED_NOTE, "DESIGN.md section 5 C09"),
    "C10": ("exploration",
            "property-based testing (rapid): model-based — a reference model of the ingest buffer (rows, marshaled bytes, per-partition counts) predicts when a limit is certainly reached; generated limit settings x batch shapes; time-bounded oracle with confirm-by-replay",
            "hundreds (quick) to thousands (thorough) of generated configurations and batch sequences, no Flush/Stop while obligations are open; immediate-flush obligations only when the limit is reached under any reasonable byte accounting.",
            SCHED_NOTE, "DESIGN.md section 5 C10"),
})

CURSOR_NOTE = ("The harness owns the consumer (Next/Close/cancel timing), every store call (failures, silent corruption, latency, a ctx-honouring gate inside the MetaStore iteration) and the handle accounting; "
               "where in the engine's internal pipeline a termination lands is left to the scheduler, GOMAXPROCS variation and repetition. Failures that fire after a query was terminated may be dropped (documented).")

CLAIMED.update({
    "C20": ("exploration",
            "property-based testing (rapid): generated consumer scripts (Next xk, Close/cancel from this or another goroutine, stalls, batch-boundary stops) x store fault sequences x engine lifecycle, with a terminal-state oracle over the observed Next/Err/Close history",
            "hundreds (quick) to thousands (thorough) of scripts over datasets with several 64-row batches per block; checks termination, stickiness of false, Close idempotence/concurrency/nil, Err classification (clean / failures / cancelled), and that no row is handed out after the consumer's own Close/cancel completed.",
            CURSOR_NOTE, "DESIGN.md section 5 C20"),
    "C21": ("exploration",
            "property-based testing (rapid): the same generated cursor scripts judged by resource accounting — per-handle open/close/use-after-close/concurrent-use counters in the store wrapper, iterator-open gauge, goroutine stack inspection, and a barrier-gated follow-up query that must reach MaxQueryConcurrency simultaneous reads",
            "Every handle opened by every generated query is accounted for; leaked query-semaphore slots are made visible by the follow-up query. Includes silent-corruption faults (CRC failures) and multi-chunk filter regions.",
            CURSOR_NOTE, "DESIGN.md section 5 C21"),
    "C22": ("exploration",
            "property-based testing (rapid): generated sets of concurrent queries with read latency and stalled consumers; invariant = gauge of in-progress OpenFile/Seek/Read on query handles <= MaxQueryConcurrency, and bounded completion of non-stalled queries (confirm-by-replay)",
            "hundreds (quick) to thousands (thorough) of schedules; most reach the limit exactly (more block jobs than slots). Exploration of schedules, not all of them.",
            CURSOR_NOTE, "DESIGN.md section 5 C22"),
})

CLAIMED.update({
    "C15": ("fault_enumeration",
            "property-based testing (rapid) with exhaustive crash-point enumeration inside each generated history: a verif-tagged hook reports every filesystem mutation; at each one the harness recovers the crash image and the power-loss images of a durability model with a fresh engine and checks acknowledged rows, unknown rows and duplicates",
            "Within each generated history (ingest/flush, failed flush, merge, failed merge incl. publish-then-fail Close) EVERY mutation boundary reported by the hook is a crash point, each with the as-is image and all ordered prefixes of pending directory operations over fsync-durable content. Histories are sampled (40 quick / 600 thorough). Two known findings (merge window, unsynced removes) are re-observed, counted and excluded by signature.",
            "The durability model is a model, not a filesystem (data durable as of the file's last fsync, directory entries as of the last directory fsync, pending directory operations persist as ordered prefixes); granularity is the hook's events.", "DESIGN.md section 5 C15"),
    "C16": ("exploration",
            "property-based testing (rapid): model-based state machine over FileSystemDataStore (CreateFile with hook-forced name collisions, chunked Write, Close, Abort, TombstoneFile, OpenFile, scan, parallel CreateFile bursts); the directory is compared with the model after every operation",
            "hundreds (quick) to thousands (thorough) of operation sequences over up to 4 open writers; about half force a collision with a live file; a quarter also tombstone an open writer's pointer ('any sequence').",
            "The pointer is the path: a TombstoneFile through an older copy of a pointer acts on whatever file lives at that path; forced names are not re-used while a tombstoned writer is still open (that combination is the contract-violating finding-8 scenario described in DESIGN.md).", "DESIGN.md section 5 C16"),
})

CLAIMED.update({
    "C14": ("exploration",
            "property-based testing (rapid): generated flush/merge histories for both shipped MetaStores with harness-owned interleavings — a complete probe query before and after every store call of every flush and merge (window), a query whose MetaStore iteration is paused while a Merge or flush commits (span), free-running writers/merger/queriers (stress); history oracle over unique row ids and acknowledgement times",
            "hundreds (quick) to thousands (thorough) of generated cases; in window mode every publish / commit / cleanup boundary visible to the store wrapper is probed, so the windows are owned rather than hoped for; stress interleavings are sampled. Two known findings of FileSystemDataStore-as-MetaStore (duplicates in the publish-to-removal window, omissions when the scan listed the directory before the commit) are re-observed, attributed by signature (affected ids are exactly rows of the Merge in progress) and excluded; anything else is a violation.",
            "Err()!=nil imposes nothing on content except never inventing rows. On the filesystem MetaStore, free-running stress queries that overlap a Merge and disagree are excluded and counted (the gated modes judge that window precisely).",
            "DESIGN.md section 5 C14"),
    "C27": ("exploration",
            "property-based testing (rapid): generated operation histories with one-shot store failures, corrupt files, filter-less external files and wedged Stop deadlines, each executed by a plain child program (no test framework) whose stdout and stderr are pipes owned by the parent; oracle = both streams empty byte for byte with Logger == nil; twin run with a counting slog.Logger proves logging call sites and failure paths were reached",
            "hundreds (quick) to thousands (thorough) of scenarios; the evidence names every Warn message and failure path reached (at seed 1 quick: five of the six Warn call sites of the current tree, post-commit merge cleanup failure, failed flushes/merges/queries). Exploration of histories, not all of them.",
            "Anything written by the library's dependencies to the process's streams counts too; a child that fails without output is reported as inconclusive, not as a violation.",
            "DESIGN.md section 5 C27"),
})

PENDING_REASON ="check not yet built in this revision of /verif (no technical obstacle; see DESIGN.md section 5)"

# Added in the second build round (DESIGN.md section 10): appended to the level text.
EXTRA = {
    "C01": "Further phases: 'minmax' (merged blocks whose range is the hull of several source ranges, prefilter-only queries with operands next to the stored values).",
    "C02": "Further phases: 'minmax' (as C01) and 'blockmeta' (the block-granular clauses judged directly on EvaluateDataBlockMetadata/FilterDataBlocks over generated metadata).",
    "C03": "Further phase 'pool': abnormally ending queries (failed/corrupted row-data read, early Close, cancel) followed by a query parked mid-scan by a stalled consumer while other queries scan equally sized blocks. Also 'bigpool': multi-chunk filter regions with a failing later chunk read and row data in the chunk buffers' size class. Pool phase also with uneven block sizes aimed so a failing block's compressed size class equals the parked block's uncompressed class.",
    "C04": "The engine-level 'e2e' phase uses histories of 3-8 small flushed files merged once or twice and prefilter-only queries.",
    "C05": "Further phase 'stoprace': callers held between the engine's stopped check and its enqueue by a Context whose Done() parks, released before/during/after Stop. Done channels may be shared by several batches (one value per accepted batch). Rejected batches hold one or two unmarshalable rows (the second in another partition).",
    "C06": "Further phase 'badbatch' (rejection-heavy partitioned histories, no injected faults); 'error means absent' is also judged with the filesystem store as MetaStore unless a cleanup call itself was made to fail.",
    "C08": "Further phase 'stoprace' (see C05). When wedged: abandoned channels on producer batches, deep-backlog and quiet-wedge shapes, Flush callers queued behind the wedge (must return, and with an error after a deadline error). Abandoned empty/unmarshalable batches too.",
    "C10": "Generator modes: mixed limits, exactly one binding limit, and a trickle of small/empty requests inside every time window; answers are time-stamped by live receivers and bounded from each batch's own acceptance. Also a hum of empty requests faster than any polling period, and skewed multi-partition batches for the row-group byte limit; the obligation is re-derived from the still-unanswered batches when the buffer model may be stale. Further mode 'fireforget': only the time limit can fire, most batches carry no done channel, wholly rejected batches (unserializable row) arrive between and after them, then the engine is idle: every accepted row must be visible to a match-all query on the same engine within the same time bound.",
    "C13": "Single-flight is checked with three further Merge calls made one after the other while the first is gated. A third of the cases run the Merge against a MetaStore that is the in-memory DataStore itself; every committed output must be a whole bloom file. A merge that did not commit must also leave the block metadata the MetaStore serves unchanged.",
    "C16": "Sequences include redundant Close/Abort/Write calls on a writer whose Close already succeeded. Also a Close made to fail before publishing (its .tmp removed) whose owner aborts and tombstones only later. Payloads up to 300 KB written as a tiny first chunk plus large chunks. A third of the cases root the store at a path whose components contain .dat/.tmp.",
    "C19": "Further phase 'transplant': a block's row data replaced by a complete valid compressed stream of identical sizes written to another store. Hostile metadata includes cooperating pairs (a negative section size plus an extent beyond the file). Further phase 'metahostile': hostile filter section extents in MetaStore-held metadata for one of several healthy files.",
    "C20": "Scripts include 2-4 concurrent Close calls and a settle stall before a deliberate Close when faults are planned. Also a slow walk through buffered rows with a concurrent Close (repeated), and a world with a malformed block whose scan fails after its rows were matched. Store errors may wrap a context error of their own; 60-90 file worlds back the pipeline up to the candidate-pulling stage before Close/cancel. Also blocks of exactly five 64-row batches on a budget of 1-3: after a stall every worker is parked on the full row buffer, the consumer reads the first row of one more batch and terminates at once (repeated).",
    "C21": "Handle and iterator accounting is also snapshotted at the return of each individual Close call (sequential, asynchronous, or one of several concurrent ones). Further phase 'contended': 2-6 queries on one engine with MaxQueryConcurrency 1-3, slow handle Close, failing reads, then the full accounting and the budget recheck. Read handles whose Close reports an error. The shared scripts include the parked-worker script of C20 (a worker un-parked by the consumer while the query is being terminated); the budget recheck then requires every slot back.",
    "C24": "Further phase 'transient': the same expectations with a one-shot OpenFile/Read/Seek failure inside about half of the queries. External-writer files may carry blocks without a filter section next to blocks with one.",
    "C25": "Further phase 'shared': one expression value (constructor-built, JSON-decoded, append-built with spare capacity) used for several builder chains and constructor calls. Constructor calls may receive one caller-owned operand slice that is re-filled for the next call.",
    "C26": "Further phase 'volume': 250 000 - 1 000 000 (thorough 3 000 000) distinct entries per block at rates down to 1e-12. The text is stored under 1-8 fields; a merge may be run by a second engine with a different rate. Merges may contain a block that is copied verbatim (its recorded rate must stay the writing engine's).",
    "C09": "A quarter of the cases: every Write/Close fails and the store hangs inside the failed flush's cleanup (Abort/TombstoneFile). A third of the cases use a partition function whose ids never repeat. Some cases add producers of empty batches beside trickling producers of rows.",
    "C12": "MaxFileSize is also set, per merge, at (or one byte under) what two real files add up to.",
    "C11": "Shares the generated merges of C12 (MaxFileSize at real pair boundaries). External-writer files may be compressed (snappy stream / zstd), with or without a row data hash. Some merges are preceded by a faulted Merge on the same engine instance.",
    "C14": "Span mode also with 66-140 files and an early pause, and with the querying engine started or already stopped. Window mode: the Merge's context may be cancelled at a store call, and a quiet probe query follows every step.",
    "C15": "Histories include partition groups (several merge groups per Merge) and merges failing in a later group. A multi-group merge's context may be cancelled at a store call.",
    "C17": "Further phases: 'faulted' (histories with one-shot store failures inside) and 'shapes' (extreme but legal block shapes: compression ratios in the thousands, one 1.5 MB row, empty rows). Further phase 'concurrent': ingest+flush steps carried out while Merge runs (slowed store writes); faulted histories retry a failed merge on the same engine.",
    "C18": "Further phases 'faulted' and 'shapes' (as C17). Further phase 'concurrent' (see C17).",
    "C23": "The fault phase also queries the multi-chunk filter world with an expression that rules out most blocks, and a world with a malformed block. Every second query of the clean phases has Stats polled while in flight.",
    "C27": "Scenarios include double faults (a failure and the failure of the cleanup it provokes) aimed at a Merge that has a group to commit. Scenarios also choose the stores (in-memory or FileSystemDataStore as DataStore / as both), MaxQueryConcurrency 1-4, bursts of small files, early-ended queries and several kinds of file damage.",
    "C07": "40% of the runs end with Stop instead of a final Flush while flushes are still queued. A third of the schedules contain one-shot store failures with a slow Abort/TombstoneFile, so failed flushes owe their error answers while later requests queue behind them.",
    "C22": "15% of the cases use a file whose block filter region spans several 4 MiB chunks, queried with bloom conditions on a budget of 1-2.",
}

def main():
    props = [json.loads(l) for l in open(os.path.join(HERE, "properties.jsonl"))]
    checks = []
    na = []
    for p in props:
        pid = p["id"]
        if pid in CLAIMED:
            cat, tech, text, note, ref = CLAIMED[pid]
            if pid in EXTRA:
                text = text + " " + EXTRA[pid]
            checks.append({
                "property_id": pid,
                "quick_cmd": f"./check {pid} --tier quick",
                "thorough_cmd": f"./check {pid} --tier thorough",
                "evidence_file": f"/verif/evidence/{pid}.json",
                "replay_cmd_template": f"./check {pid} --replay {{path}}",
                "engine": "harness",
                "level_claimed": {"category": cat, "text": text, "design_ref": ref},
                "level_note": note,
                "technique": tech,
            })
        else:
            na.append({"property_id": pid, "reason": PENDING_REASON})
    hooks_commits = []
    try:
        out = subprocess.run(["git", "-C", "/repo", "log", "--format=%H %s"], capture_output=True, text=True).stdout
        for line in out.splitlines():
            h, _, s = line.partition(" ")
            if s.startswith("verif hook"):
                hooks_commits.append(h)
    except Exception:
        pass
    manifest = {
        "version": 1,
        "setup_cmd": "cd /verif/harness && GOFLAGS=-mod=mod GOPROXY=off go test -c -tags verif -o /dev/null .",
        "hooks": {
            "guard": "verif",
            "enable": "go build tag: the harness is compiled with `-tags verif` against /repo through a replace directive (see /verif/check)",
            "baseline_off_cmd": "cd /repo && GOFLAGS=-mod=mod GOPROXY=off go test -json -vet=off -count=1 -timeout 25m ./...",
            "source_commits": hooks_commits,
            "add_only": True,
        },
        "engines": [{
            "name": "harness",
            "path": "/verif/harness",
            "serves_properties": [c["property_id"] for c in checks],
            "kind_free_text": "Go test binary (pgregory.net/rapid v1.3.0 generators + shrinking, Go native fuzzing for byte-level targets) built against /repo's working tree; independent oracles; harness-owned DataStore/MetaStore wrappers for fault injection and schedules",
        }],
        "checks": checks,
        "not_applicable": na,
        "notes": "Driver: ./check Cxx [--tier quick|thorough] [--replay file]. Exit 0 held / 1 violation (VIOLATION line) / 2 inconclusive. VERIF_SEED selects the rapid seed (0 remapped). Known findings: /verif/KNOWN_FINDINGS.txt.",
    }
    with open(os.path.join(HERE, "MANIFEST.json"), "w") as f:
        json.dump(manifest, f, indent=1)
        f.write("\n")

if __name__ == "__main__":
    main()

#!/usr/bin/env bash
# usage: tools/soundness.sh "<seeds>" [jobs] [tier] — every check on the unchanged tree at the given VERIF_SEED values, in parallel,
# evidence/replays redirected to a scratch dir; prints one line per run to /tmp/wt/SOUND.txt (anything but rc=0 needs triage).
SEEDS="${1:-1 2 3}"; J="${2:-3}"; TIER="${3:-quick}"
OUT=/tmp/wt/SOUND.txt; mkdir -p /tmp/wt /tmp/soundlogs
for s in $SEEDS; do for p in $(seq -w 1 27); do echo "$s C$p"; done; done | xargs -P "$J" -L1 bash -c '
  s=$0; p=$1; scr=$(mktemp -d /tmp/sound.XXXXXX)
  start=$(date +%s)
  (cd /verif && VERIF_SEED=$s VERIF_EVIDENCE_DIR=$scr/ev VERIF_REPLAY_DIR=/tmp/soundlogs/rp-$p-$s ./check $p --tier '"$TIER"' > /tmp/soundlogs/$p-$s.log 2>&1); rc=$?
  end=$(date +%s)
  echo "seed=$s $p rc=$rc $((end-start))s" >> '"$OUT"'
  [ $rc -eq 0 ] && rm -rf /tmp/soundlogs/$p-$s.log /tmp/soundlogs/rp-$p-$s
  rm -rf $scr'

#!/usr/bin/env bash
# usage: tools/process_seed.sh <Cxx> [suffixX suffixY]
# Takes a sub-agent's delivery in /tmp/wt/<Cxx>/seed_out/{X,Y}, confirms each in a
# scratch worktree (suite passes with it, demo fails with it, demo passes without
# it), stores confirmed ones as /verif/seeded/<Cxx>-<suffix>, runs the property's
# quick check against each (scratch worktree, not /repo), logs to
# /tmp/wt/SEEDLOG.txt and removes the sub-agent's worktree.
set -u
P="$1"; SX="${2:-C}"; SY="${3:-D}"
cd /verif
for pair in "X:$SX" "Y:$SY"; do
  d="${pair%%:*}"; s="${pair##*:}"
  src="${WT_ROOT:-/tmp/wt}/$P/seed_out/$d"
  [ -f "$src/patch.diff" ] || { echo "$P-$s: no delivery in $src" >> /tmp/wt/SEEDLOG.txt; continue; }
  (
    out=$(tools/confirm_seed.sh "$src" "$P-$s" "$P" 2>&1)
    echo "$out" | grep -E "^RESULT" >> /tmp/wt/SEEDLOG.txt
    if echo "$out" | grep -q "^STORED"; then
      tools/seedtest2.sh "seeded/$P-$s/patch.diff" "$P" 2>&1 | grep -E "^==|^VIOLATION|^OK|^INCONCLUSIVE" | sort -u | sed "s/^/$P-$s: /" >> /tmp/wt/SEEDLOG.txt
    else
      echo "$out" | tail -8 | sed "s/^/$P-$s NOT CONFIRMED: /" >> /tmp/wt/SEEDLOG.txt
    fi
  ) &
done
wait
git -C /repo worktree remove --force "${WT_ROOT:-/tmp/wt}/$P" >/dev/null 2>&1
echo "$P processed" >> /tmp/wt/SEEDLOG.txt

#!/usr/bin/env bash
# usage: tools/seedtest.sh <patch.diff> <Cxx> [Cyy ...]   (env TIER=quick|thorough, VERIF_SEED)
# Applies a seeded change to /repo, runs the given checks against it with evidence
# and replays redirected to a scratch dir, and ALWAYS reverts /repo afterwards.
set -u
PATCH="$(realpath "$1")"; shift
cd /repo || exit 2
if [ -n "$(git status --porcelain)" ]; then echo "/repo not clean"; exit 2; fi
if ! git apply --check "$PATCH" 2>/dev/null; then
  if git apply --3way --check "$PATCH" 2>/dev/null; then MODE=--3way; else echo "PATCH DOES NOT APPLY: $PATCH"; exit 3; fi
fi
trap 'cd /repo && git reset -q --hard HEAD && git clean -fdq' EXIT
git apply ${MODE:-} "$PATCH" || { echo "PATCH DOES NOT APPLY CLEANLY: $PATCH"; exit 3; }
SCR=$(mktemp -d /tmp/seedrun.XXXX)
for P in "$@"; do
  start=$(date +%s)
  out=$(cd /verif && VERIF_EVIDENCE_DIR=$SCR/ev VERIF_REPLAY_DIR=$SCR/rp ./check "$P" --tier "${TIER:-quick}" 2>&1)
  rc=$?
  end=$(date +%s)
  echo "== $P rc=$rc ($((end-start))s) patch=$PATCH"
  echo "$out" | grep -E "^(VIOLATION|INCONCLUSIVE|KNOWN|OK)" | head -5
  if [ "$rc" -eq 1 ]; then echo "$out" | grep -A6 "^VIOLATION" | cut -c1-600 | head -12; fi
  if [ "$rc" -eq 2 ]; then echo "$out" | tail -15 | cut -c1-400; fi
done
rm -rf "$SCR"

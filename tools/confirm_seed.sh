#!/usr/bin/env bash
# usage: tools/confirm_seed.sh <dir with patch.diff demo_test.go NOTES.md> <seed-name> <property>
# Confirms, in a scratch worktree of /repo HEAD: (1) the patch applies, (2) the
# pinned suite passes with it, (3) the demonstration fails with it, (4) the
# demonstration passes without it. On success stores the seed under
# /verif/seeded/<seed-name>/ with meta.json. The worktree is always removed.
set -u
SRC="$1"; NAME="$2"; PROP="$3"
export GOFLAGS=-mod=mod GOPROXY=off
WT=$(mktemp -d /tmp/confirm.XXXX)
git -C /repo worktree add -f --detach "$WT" HEAD >/dev/null 2>&1 || { echo "worktree failed"; exit 2; }
cleanup() { git -C /repo worktree remove --force "$WT" >/dev/null 2>&1; rm -rf "$WT"; }
trap cleanup EXIT
cd "$WT" || exit 2
MODE=""
if ! git apply --check "$SRC/patch.diff" 2>/dev/null; then
  if git apply --3way --check "$SRC/patch.diff" 2>/dev/null; then MODE=--3way; else echo "RESULT $NAME: patch does not apply to HEAD"; exit 3; fi
fi
git apply $MODE "$SRC/patch.diff"
cp "$SRC/demo_test.go" "$WT/zz_seed_demo_test.go"
TESTS=$(grep -oE '^func (Test[A-Za-z0-9_]+)' zz_seed_demo_test.go | awk '{print $2}' | paste -sd'|')
[ -z "$TESTS" ] && { echo "RESULT $NAME: no tests in demo"; exit 3; }
# (3) demo with change
go test -vet=off -count=1 -timeout 10m -run "^($TESTS)\$" . >"$WT/demo_with.log" 2>&1; DEMO_WITH=$?
# (2) suite with change (without the demo file)
mv zz_seed_demo_test.go /tmp/zz_seed_demo_$$.go
go test -vet=off -count=1 -timeout 25m ./... >"$WT/suite_with.log" 2>&1; SUITE=$?
git checkout -q -- . 2>/dev/null; git reset -q --hard HEAD
mv /tmp/zz_seed_demo_$$.go zz_seed_demo_test.go
# (4) demo without change
go test -vet=off -count=1 -timeout 10m -run "^($TESTS)\$" . >"$WT/demo_without.log" 2>&1; DEMO_WITHOUT=$?
echo "RESULT $NAME: suite_with_change=$SUITE demo_with_change=$DEMO_WITH demo_without_change=$DEMO_WITHOUT"
if [ "$SUITE" -eq 0 ] && [ "$DEMO_WITH" -ne 0 ] && [ "$DEMO_WITHOUT" -eq 0 ]; then
  D=/verif/seeded/$NAME
  mkdir -p "$D"
  cp "$SRC/patch.diff" "$D/patch.diff"
  cp "$SRC/demo_test.go" "$D/demo_test.go"
  [ -f "$SRC/NOTES.md" ] && cp "$SRC/NOTES.md" "$D/NOTES.md"
  HEADREV=$(git -C /repo rev-parse --short HEAD)
  python3 - "$D" "$NAME" "$PROP" "$HEADREV" "$TESTS" <<'EOF'
import json, sys, re, os
d, name, prop, head, tests = sys.argv[1:6]
notes = open(os.path.join(d, "NOTES.md")).read() if os.path.exists(os.path.join(d, "NOTES.md")) else ""
meta = {
  "seed": name,
  "breaks_property": prop,
  "needs_to_manifest": "see NOTES.md (written by the sub-agent that produced the change)",
  "confirmed_against_repo_commit": head,
  "confirmation": {
    "pinned_suite_with_change": "pass (go test -vet=off -count=1 ./...)",
    "demo_with_change": "FAIL (go test -run '^(%s)$')" % tests,
    "demo_without_change": "pass",
  },
  "detected_by": [],
}
json.dump(meta, open(os.path.join(d, "meta.json"), "w"), indent=1)
EOF
  echo "STORED $D"
else
  tail -5 "$WT/suite_with.log" "$WT/demo_with.log" "$WT/demo_without.log" | cut -c1-300
fi

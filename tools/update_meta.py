#!/usr/bin/env python3
"""Fills seeded/*/meta.json from the last sweep (/tmp/wt/SWEEP.txt or a given file):
detected_by, what_was_run, and a short needs_to_manifest excerpt from NOTES.md."""
import json, os, re, sys
sweep = sys.argv[1] if len(sys.argv) > 1 else "/tmp/wt/SWEEP.txt"
res = {}
for line in open(sweep):
    m = re.match(r"(C\d\d-[A-Z]) == (C\d\d) rc=(\d+) \((\d+)s\)", line)
    if m:
        res[m.group(1)] = (m.group(2), int(m.group(3)), int(m.group(4)))
    elif "DOES NOT APPLY" in line:
        res[line.split()[0]] = (None, -1, 0)
root = "/verif/seeded"
for d in sorted(os.listdir(root)):
    mp = os.path.join(root, d, "meta.json")
    if not os.path.exists(mp):
        continue
    meta = json.load(open(mp))
    notes_p = os.path.join(root, d, "NOTES.md")
    if os.path.exists(notes_p):
        notes = open(notes_p).read()
        m = re.search(r"^#+[^\n]*(need|manifest)[^\n]*\n(.+?)(?=^#|\Z)", notes, re.S | re.M | re.I)
        if m:
            txt = re.sub(r"\s+", " ", m.group(2)).strip()
            meta["needs_to_manifest"] = txt[:700]
    if d in res:
        prop, rc, secs = res[d]
        if rc == 1:
            meta["detected_by"] = ["./check %s --tier quick (VERIF_SEED=1): VIOLATION after %d s" % (prop, secs)]
        elif rc == 0:
            meta["detected_by"] = []
            meta["not_detected_note"] = "quick check of %s stays quiet; see seeded/RESULTS.md" % prop
        elif rc == -1:
            meta["detected_by"] = []
            meta["not_detected_note"] = "patch no longer applies to the tree"
    meta["what_was_run"] = "tools/confirm_seed.sh (scratch worktree: pinned suite with the change, demonstration with and without it); tools/seedtest2.sh <patch> %s (scratch worktree, quick tier)" % meta.get("breaks_property", "")
    json.dump(meta, open(mp, "w"), indent=1)
print("updated", len(res))

#!/usr/bin/env python3
"""Writes seeded/RESULTS.md from a sweep file (default /tmp/wt/SWEEP.txt)."""
import json, os, re, sys, datetime
sweep = sys.argv[1] if len(sys.argv) > 1 else "/tmp/wt/SWEEP.txt"
NOTES = {
 "C03-A": "patch no longer applies: it was written against the tree before `fix:` f71a778 touched the same lines",
 "C20-B": "not reported (quick, thorough): Close freezes Err before the teardown; only failures that fire *after* Close began are lost, and the property (and the engine's documentation) allows those to be dropped, so no sound black-box oracle separates it from the unchanged tree",
 "C15-G": "not reported: needs an unlink inside FileSystemDataStore.Update to fail (a fault below the store-call level, outside every listed quantifier; the filesystem hook only observes)",
 "C02-H": "not reported by C02 (its quantifier has no faults); reported in the quick tier by C03 (pool phase, uneven blocks) and C19",
 "C24-J": "not reported by C24 (the MetaStore's own copy of the block metadata is what gets widened, and C24 computes the expected pruning from the metadata the MetaStore serves); reported in the quick tier by C13 (a merge that did not commit must leave the served block metadata unchanged) and C17 (MetaStore metadata vs the file's own footer)",
 "C20-K": "not reported by C20 (a parked block worker that is un-parked while the query is being terminated takes a budget slot back and never returns it: the cursor that was closed still ends correctly; only later queries on the same engine hang, once MaxQueryConcurrency slots are gone); reported in the quick tier by C21 (the budget recheck after the parked-worker script added in the fifth wave: a follow-up query no longer reaches MaxQueryConcurrency simultaneous reads)",
 "C15-F": "not reported by C15 (needs the writer's .tmp to vanish before Close, which is not a crash point); reported in the quick tier by C16 (`failclose` op: Close returns nil for a file that was never published)",
}
rows = {}
for line in open(sweep):
    m = re.match(r"(C\d\d-[A-Z]) == (C\d\d) rc=(\d+) \((\d+)s\)", line)
    if m:
        rows[m.group(1)] = (int(m.group(3)), int(m.group(4)))
    elif "DOES NOT APPLY" in line:
        rows[line.split()[0]] = (-1, 0)
def idea(seed):
    p = os.path.join("/verif/seeded", seed, "NOTES.md")
    if not os.path.exists(p):
        return ""
    for l in open(p):
        if l.startswith("#"):
            t = l.lstrip("# ").strip()
            t = re.sub(r"^(C\d\d\s*[/—-]?\s*)?(seed(ed)?\s*(change)?\s*)?[ABXY]?\s*[—:(-]*\s*", "", t, flags=re.I)
            return t[:150]
    return ""
out = []
out.append("# Seeded changes: what the checks report\n")
out.append("Ten realistic changes per property (eleven for C05-C08 C10 C11 C13-C17 C20-C23: `Cxx-K`, a fifth wave in the third session, one change per property, same prompt as the fourth wave; their lines come from single runs of `tools/seedtest2.sh`, not from the full sweep): `Cxx-A/B` (first session), `Cxx-C/D`, `Cxx-E/F`, `Cxx-G/H` and `Cxx-I/J` (second session; fresh sub-agents that were given only the property text — from E on also its anchored mechanisms, for G/H and I/J the hint that the obvious sites were taken — and a scratch worktree). Each compiles, passes the pinned suite and ships a demonstration test that fails with the change and passes without it (`tools/confirm_seed.sh`; see each `NOTES.md` / `meta.json`). `tools/seedtest2.sh <patch> Cxx` applies one to a scratch worktree of `/repo` and points the check at it; `/repo` itself is never touched.\n")
out.append("Last full sweep: %s, quick tier, `VERIF_SEED=1`, each seed against the check of the property it was written for (`tools/sweep_seeds.sh`; wall clock of the whole check, six sweeps in parallel).\n" % datetime.date.today().isoformat())
out.append("| seed | own property's quick check | what the change is / note |\n|---|---|---|")
hit = miss = na = 0
for seed in sorted(rows):
    rc, secs = rows[seed]
    if rc == 1:
        r = "reported (%d s)" % secs; hit += 1
    elif rc == -1:
        r = "n/a"; na += 1
    else:
        r = "not reported" if rc == 0 else "inconclusive (rc=%d)" % rc; miss += 1
    note = NOTES.get(seed, idea(seed))
    out.append("| %s | %s | %s |" % (seed, r, note.replace("|", "/")))
out.append("\nSummary: %d of the %d applicable changes are reported in the quick tier by the check of their own property; %d are not (reasons in the table); %d no longer apply to the tree.\n" % (hit, hit + miss, miss, na))
out.append("History of the misses (what each one needed and which generator / observation was added) is in DESIGN.md section 10.\n")
open("/verif/seeded/RESULTS.md", "w").write("\n".join(out))
print(hit, miss, na)

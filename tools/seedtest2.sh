#!/usr/bin/env bash
# usage: tools/seedtest2.sh <patch.diff> <Cxx> [Cyy ...]   (env TIER=quick|thorough, VERIF_SEED)
# Like seedtest.sh but never touches /repo's working tree: the seeded change is
# applied to a scratch worktree of /repo HEAD under /tmp and the checks are pointed
# at it (VERIF_REPO_DIR), so several seeds can be tried in parallel while /repo is
# used by other runs. The worktree is always removed.
set -u
PATCH="$(realpath "$1")"; shift
WT=$(mktemp -d /tmp/seedwt.XXXXXX)
git -C /repo worktree add -f --detach "$WT" HEAD >/dev/null 2>&1 || { echo "worktree failed"; exit 2; }
SCR=$(mktemp -d /tmp/seedrun.XXXXXX)
trap 'git -C /repo worktree remove --force "$WT" >/dev/null 2>&1; rm -rf "$WT" "$SCR"' EXIT
MODE=""
if ! git -C "$WT" apply --check "$PATCH" 2>/dev/null; then
  if git -C "$WT" apply --3way --check "$PATCH" 2>/dev/null; then MODE=--3way; else echo "PATCH DOES NOT APPLY: $PATCH"; exit 3; fi
fi
git -C "$WT" apply $MODE "$PATCH" || { echo "PATCH DOES NOT APPLY CLEANLY: $PATCH"; exit 3; }
for P in "$@"; do
  start=$(date +%s)
  out=$(cd /verif && VERIF_REPO_DIR="$WT" VERIF_EVIDENCE_DIR=$SCR/ev VERIF_REPLAY_DIR=$SCR/rp ./check "$P" --tier "${TIER:-quick}" 2>&1)
  rc=$?
  end=$(date +%s)
  echo "== $P rc=$rc ($((end-start))s) patch=$PATCH"
  echo "$out" | grep -E "^(VIOLATION|INCONCLUSIVE|KNOWN|OK)" | sort -u | head -5
  if [ "$rc" -eq 1 ]; then echo "$out" | grep -A3 "^VIOLATION" | grep -v "^VIOLATION" | cut -c1-500 | head -4; fi
  if [ "$rc" -eq 2 ]; then echo "$out" | tail -15 | cut -c1-400; fi
done

#!/usr/bin/env bash
# usage: tools/sweep_seeds.sh [jobs] — every seed against its own property's quick check, in parallel; output /tmp/wt/SWEEP.txt
J="${1:-4}"
mkdir -p /tmp/wt; : > /tmp/wt/SWEEP.txt
ls -d /verif/seeded/C*-* | xargs -n1 basename | xargs -P "$J" -I{} bash -c '
  s={}; p=${s%%-*}
  out=$(/verif/tools/seedtest2.sh /verif/seeded/$s/patch.diff $p 2>&1 | grep -E "^==|DOES NOT APPLY" | head -1)
  echo "$s $out" >> /tmp/wt/SWEEP.txt'
sort /tmp/wt/SWEEP.txt -o /tmp/wt/SWEEP.txt

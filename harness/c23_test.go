package harness

// C23 — query statistics account for every evaluated block exactly once.
// C24 — pruning is effective: disqualified data is never read.
// Both judge the generated search runs of search_case.go (clean completion on
// healthy stores); the fault / early-termination side of C23 is judged on the
// cursor scripts of c20_test.go.

import (
	"bytes"
	"fmt"
	"testing"

	"github.com/bits-and-blooms/bloom/v3"
	bs "github.com/danthegoodman1/bloomsearch"
)

func judgeStatsClean(sr *SearchRun, run QueryRun, qi int) *Violation {
	q := run.Spec.Query()
	var pre *bs.QueryPrefilter
	if q != nil {
		pre = q.Prefilter
	}
	st := run.Stats
	blocks := map[blockID]*BlockInfo{}
	for _, f := range sr.Files {
		for _, b := range f.Blocks {
			blocks[blockID{f.Ptr, b.Meta.RowDataOffset}] = b
		}
	}
	seen := map[blockID]bs.BlockStats{}
	var sumRows, sumBytes int64
	processed, skipped := 0, 0
	for _, e := range st.BlockStats {
		id := blockID{string(e.FilePointer), e.BlockOffset}
		if _, dup := seen[id]; dup {
			return violf("query %d: Stats lists block %v twice", qi, id)
		}
		seen[id] = e
		b := blocks[id]
		if b == nil {
			return violf("query %d: Stats lists a block %v that does not exist", qi, id)
		}
		if e.TotalRows != int64(b.Meta.Rows) {
			return violf("query %d: block %v TotalRows=%d, metadata Rows=%d", qi, id, e.TotalRows, b.Meta.Rows)
		}
		if e.BloomFilterSkipped {
			skipped++
			if e.RowsProcessed != 0 || e.BytesProcessed != 0 {
				return violf("query %d: bloom-skipped block %v reports RowsProcessed=%d BytesProcessed=%d (want 0)", qi, id, e.RowsProcessed, e.BytesProcessed)
			}
		} else {
			processed++
			if e.RowsProcessed != int64(b.Meta.Rows) {
				return violf("query %d completed cleanly but processed block %v reports RowsProcessed=%d of %d rows", qi, id, e.RowsProcessed, b.Meta.Rows)
			}
			want := int64(0)
			for _, r := range b.Rows {
				want += int64(len(r)) + 4
			}
			if e.BytesProcessed != want {
				return violf("query %d: processed block %v reports BytesProcessed=%d, its rows are %d bytes (length prefixes included)", qi, id, e.BytesProcessed, want)
			}
		}
		sumRows += e.RowsProcessed
		sumBytes += e.BytesProcessed
	}
	if st.BlocksProcessed != processed || st.BlocksSkipped != skipped {
		return violf("query %d: BlocksProcessed=%d BlocksSkipped=%d but BlockStats holds %d processed and %d skipped entries", qi, st.BlocksProcessed, st.BlocksSkipped, processed, skipped)
	}
	if st.RowsScanned != sumRows || st.BytesScanned != sumBytes {
		return violf("query %d: totals RowsScanned=%d BytesScanned=%d differ from per-block sums %d / %d", qi, st.RowsScanned, st.BytesScanned, sumRows, sumBytes)
	}
	if st.RowsMatched != int64(len(run.Rows)) {
		return violf("query %d completed cleanly: RowsMatched=%d but %d rows were returned", qi, st.RowsMatched, len(run.Rows))
	}
	// every block that contained a returned row is listed as processed
	for _, id := range run.IDs {
		b := sr.Where[id]
		if b == nil {
			continue
		}
		e, ok := seen[blockID{b.File, b.Meta.RowDataOffset}]
		if !ok || e.BloomFilterSkipped {
			return violf("query %d returned row id %d from block %s@%d which Stats does not list as processed (listed=%v)", qi, id, b.File, b.Meta.RowDataOffset, ok)
		}
	}
	// per file: all of the prefilter-surviving blocks, or none
	hasSkipped, hasProcessed := skipped > 0, processed > 0
	for _, f := range sr.Files {
		var surviving, listed int
		for _, b := range f.Blocks {
			meta := b.Meta
			sv := bs.EvaluateDataBlockMetadata(&meta, pre)
			_, ls := seen[blockID{f.Ptr, b.Meta.RowDataOffset}]
			if sv {
				surviving++
			}
			if ls {
				listed++
				if !sv {
					return violf("query %d: Stats lists block %s@%d which its prefilter excludes", qi, f.Ptr, b.Meta.RowDataOffset)
				}
			}
		}
		if listed != 0 && listed != surviving {
			return violf("query %d: Stats lists %d of the %d prefilter-surviving blocks of file %s (must be all or none)", qi, listed, surviving, f.Ptr)
		}
	}
	if run.StatsPolled && processed+skipped >= 2 {
		Ev.Class("query:stats-polled-in-flight,>=2-blocks")
	}
	if hasSkipped && hasProcessed {
		Ev.Class("query:skipped-and-processed-blocks")
		Ev.NonTrivial(hashStrings(jsonKey(run.Spec), sr.layoutShape(), fmt.Sprint(processed, skipped)))
		if Ev.WantSample() {
			Ev.Sample(map[string]any{"query": run.Spec, "layout": sr.layoutShape(), "blocks_processed": processed, "blocks_skipped": skipped, "rows_matched": st.RowsMatched})
		}
	}
	return nil
}

func judgeC23(sr *SearchRun) *Violation {
	for qi, run := range sr.Runs {
		Ev.Eval(1)
		if run.QueryErr != nil {
			continue
		}
		if run.Err != nil {
			return violf("query %d over healthy stores finished with Err=%v", qi, run.Err)
		}
		if v := judgeStatsClean(sr, run, qi); v != nil {
			v.Msg += "\nquery: " + shortJSON(run.Spec, 1200)
			return v
		}
	}
	return nil
}

// filtersRuleOut evaluates the BLOOM expression over real filter bits: true
// means the filters rule the expression out. An absent filter cannot rule
// anything out; nil nodes are true, empty OR / unknown nodes false.
func bloomMayMatch(f, t, ft *bloom.BloomFilter, e *bs.BloomExpression) bool {
	if e == nil {
		return true
	}
	switch e.ExpressionType {
	case bs.BloomExpressionCondition:
		c := e.Condition
		if c == nil {
			return true
		}
		switch c.Type {
		case bs.BloomField:
			return f == nil || f.TestString(c.Field)
		case bs.BloomToken:
			return t == nil || t.TestString(c.Token)
		case bs.BloomFieldToken:
			return ft == nil || ft.TestString(c.Field+"::"+c.Token)
		}
		return false
	case bs.BloomExpressionOr:
		for i := range e.Children {
			if bloomMayMatch(f, t, ft, &e.Children[i]) {
				return true
			}
		}
		return false
	case bs.BloomExpressionAnd:
		for i := range e.Children {
			if !bloomMayMatch(f, t, ft, &e.Children[i]) {
				return false
			}
		}
		return true
	}
	return false
}

// regexGuardMayMatch: README "derives a field-existence bloom guard for
// earlier file/block pruning" — a row can only satisfy FieldRegex(f, p) if the
// path f exists in it, so a field filter without f rules the condition out. An
// absent filter, a nil condition and an empty field name cannot rule out.
func regexGuardMayMatch(f *bloom.BloomFilter, e *bs.RegexExpression) bool {
	if e == nil {
		return true
	}
	switch e.ExpressionType {
	case bs.RegexExpressionCondition:
		if e.Condition == nil || e.Condition.Field == "" {
			return true
		}
		return f == nil || f.TestString(e.Condition.Field)
	case bs.RegexExpressionOr:
		for i := range e.Children {
			if regexGuardMayMatch(f, &e.Children[i]) {
				return true
			}
		}
		return false
	case bs.RegexExpressionAnd:
		for i := range e.Children {
			if !regexGuardMayMatch(f, &e.Children[i]) {
				return false
			}
		}
		return true
	}
	return true
}

func overlaps(a0, a1, b0, b1 int64) bool { return a0 < b1 && b0 < a1 }

func judgeC24(sr *SearchRun) *Violation {
	// real filters of every file and block, through the public helpers
	type fileFilters struct {
		file   bs.BloomFilters
		blocks []*bs.BloomFilters
	}
	ff := map[string]*fileFilters{}
	for _, f := range sr.Files {
		raw, err := readAllFile(sr.World.Data, f.Ptr)
		if err != nil {
			return violf("cannot read %s: %v", f.Ptr, err)
		}
		lm, _, err := bs.ReadFileMetadata(bytes.NewReader(raw))
		if err != nil {
			return violf("ReadFileMetadata %s: %v", f.Ptr, err)
		}
		x := &fileFilters{file: lm.BloomFilters}
		for _, b := range f.Blocks {
			bf, err := bs.ReadDataBlockBloomFilters(bytes.NewReader(raw), b.Meta)
			if err != nil {
				return violf("ReadDataBlockBloomFilters %s: %v", f.Ptr, err)
			}
			x.blocks = append(x.blocks, bf)
		}
		ff[f.Ptr] = x
	}
	for qi, run := range sr.Runs {
		Ev.Eval(1)
		if run.QueryErr != nil {
			continue
		}
		q := run.Spec.Query()
		var bexpr *bs.BloomExpression
		var rexpr *bs.RegexExpression
		var pre *bs.QueryPrefilter
		noConditions := true
		if q != nil {
			pre = q.Prefilter
			if q.Bloom != nil && q.Bloom.Expression != nil {
				bexpr = q.Bloom.Expression
				noConditions = false
			}
			if q.Regex != nil && q.Regex.Expression != nil {
				noConditions = false
				rexpr = q.Regex.Expression
			}
		}
		opened := map[string]bool{}
		for _, c := range run.Calls {
			if c.Kind == "OpenFile" {
				opened[c.Ptr] = true
			}
		}
		reads := map[string][][2]int64{}
		for _, h := range run.Handles {
			reads[h.Ptr] = append(reads[h.Ptr], h.Ranges...)
		}
		prunedFiles, prunedBlocks := 0, 0
		for _, f := range sr.Files {
			x := ff[f.Ptr]
			fileOut := !bloomMayMatch(x.file.FieldBloomFilter, x.file.TokenBloomFilter, x.file.FieldTokenBloomFilter, bexpr) || !regexGuardMayMatch(x.file.FieldBloomFilter, rexpr)
			if fileOut {
				prunedFiles++
				if opened[f.Ptr] {
					return violf("query %d opened file %s although its file-level filters rule out the bloom expression\nquery: %s", qi, f.Ptr, shortJSON(run.Spec, 1200))
				}
			}
			regionStart := int64(f.Meta.BlockFilterRegionOffset)
			regionEnd := regionStart + int64(f.Meta.BlockFilterRegionSize)
			for _, rg := range reads[f.Ptr] {
				if noConditions && overlaps(rg[0], rg[1], regionStart, regionEnd) {
					return violf("query %d has no bloom or regex conditions but read [%d,%d) inside the block filter region [%d,%d) of %s", qi, rg[0], rg[1], regionStart, regionEnd, f.Ptr)
				}
				// inside a declared extent: one block's row data, or the filter region
				ok := rg[0] >= regionStart && rg[1] <= regionEnd
				for _, b := range f.Blocks {
					s := int64(b.Meta.RowDataOffset)
					if rg[0] >= s && rg[1] <= s+int64(b.Meta.RowDataSize) {
						ok = true
					}
				}
				if !ok {
					return violf("query %d read [%d,%d) of %s, outside every extent its metadata declares (region [%d,%d))", qi, rg[0], rg[1], f.Ptr, regionStart, regionEnd)
				}
			}
			for bi, b := range f.Blocks {
				meta := b.Meta
				preOut := !bs.EvaluateDataBlockMetadata(&meta, pre)
				bf := x.blocks[bi]
				bloomOut := !bloomMayMatch(bf.FieldBloomFilter, bf.TokenBloomFilter, bf.FieldTokenBloomFilter, bexpr) || !regexGuardMayMatch(bf.FieldBloomFilter, rexpr)
				if !(preOut || bloomOut || fileOut) {
					continue
				}
				prunedBlocks++
				s := int64(b.Meta.RowDataOffset)
				for _, rg := range reads[f.Ptr] {
					if overlaps(rg[0], rg[1], s, s+int64(b.Meta.RowDataSize)) {
						return violf("query %d read row data [%d,%d) of block %s@%d which is ruled out (prefilter=%v block filters=%v file filters=%v)\nquery: %s", qi, rg[0], rg[1], f.Ptr, b.Meta.RowDataOffset, preOut, bloomOut, fileOut, shortJSON(run.Spec, 1200))
					}
				}
			}
		}
		if prunedFiles > 0 {
			Ev.Class("query:file-pruned")
		}
		if prunedBlocks > 0 {
			Ev.Class("query:block-pruned")
		}
		if noConditions {
			Ev.Class("query:no-bloom-or-regex-conditions")
		}
		if prunedFiles > 0 && prunedBlocks > prunedFiles {
			Ev.NonTrivial(hashStrings(jsonKey(run.Spec), sr.layoutShape(), fmt.Sprint(prunedFiles, prunedBlocks)))
			if Ev.WantSample() {
				Ev.Sample(map[string]any{"query": run.Spec, "layout": sr.layoutShape(), "files_ruled_out": prunedFiles, "blocks_ruled_out": prunedBlocks, "reads": reads})
			}
		}
	}
	return nil
}

func TestC23(t *testing.T) {
	Ev.Rule = "clean phase: generated histories + queries (same space as C01), each query run to completion on healthy stores, every second query with Stats also being polled while it is in flight (from another goroutine and between rows; only the snapshot after Next returned false is judged); oracle: one BlockStats entry per (file, offset), entries only for existing prefilter-surviving blocks, per file all-or-none of the surviving blocks, blocks of returned rows listed as processed, skipped => zero rows/bytes, processed => RowsProcessed == Rows and BytesProcessed == sum(len+4) of the rows read back independently, totals == per-block sums, RowsMatched == rows returned. Non-trivial: a query with >=1 bloom-skipped and >=1 processed block; distinct by hash(query, layout, counts). Fault / early-termination phase: see the cursor scripts (phase 'faults')."
	Ev.Assumptions = []string{"'prefilter-surviving' is the library's own public EvaluateDataBlockMetadata verdict (its correctness is C04/C02's subject)"}
	runChecks(t, "search", 250, 8000, genSearchCase(searchOpts, 10, true), runSearchProperty(judgeC23))
	runChecks(t, "merged", 100, 4000, genSearchCase(mergeHeavyOpts, 10, true), runSearchProperty(judgeC23))
	c23FaultPhase(t)
}

func TestC24(t *testing.T) {
	Ev.Rule = "generated histories + queries (same space as C01) with every DataStore call of the query recorded by the harness's store wrapper. Expected pruning is recomputed from the REAL filter bits read through ReadFileMetadata / ReadDataBlockBloomFilters (absent filter = cannot rule out) for the bloom expression AND the field-existence guard of the regex expression, and from EvaluateDataBlockMetadata for the prefilter: no OpenFile of a file whose file-level filters rule the bloom expression out; no read overlapping the row data of a ruled-out block; no read inside the filter region when bloom and regex expressions are both nil; every read inside a declared extent (a block's row data or the filter region). transient phase: the same with a one-shot OpenFile/Read/Seek failure at a generated position inside about half of the queries. Non-trivial: >=1 file and further blocks ruled out; distinct by hash(query, layout, counts)."
	Ev.Assumptions = []string{"the regex field-existence guard (documented in the README) is part of the expectation; an empty field name or nil condition cannot rule anything out", "chunk reads may cover sections of pruned blocks as long as they stay inside the region (documented slack)"}
	runChecks(t, "search", 250, 8000, genSearchCase(searchOpts, 10, true), runSearchProperty(judgeC24))
	runChecks(t, "merged", 100, 4000, genSearchCase(mergeHeavyOpts, 10, true), runSearchProperty(judgeC24))
	bigFilterPhase(t, judgeC24)
	// the same expectations while a transient OpenFile/Read/Seek failure hits the
	// query: whatever a failure makes the engine skip or retry, it must not make
	// it read what the filters rule out
	runChecks(t, "transient", 150, 5000, genSearchCaseFaulted(searchOpts, 10, true), runSearchProperty(judgeC24))
}

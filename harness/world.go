package harness

// Engine configurations, ingest/flush/restart/merge histories, the model of
// "what is stored", and reading the stored world back (block membership)
// through the public helpers.

import (
	"bytes"
	"context"
	"encoding/json"
	"fmt"
	"hash/fnv"
	"io"
	"os"
	"sort"
	"strings"
	"sync/atomic"
	"time"

	bs "github.com/danthegoodman1/bloomsearch"
	"pgregory.net/rapid"
)

// ------------------------------------------------------------------ config

type EngCfg struct {
	Tokenizer   string   `json:"tok"`
	Compression string   `json:"comp"` // "none","snappy","zstd",""
	ZstdLevel   int      `json:"zl,omitempty"`
	FPR         float64  `json:"fpr"`
	RGRows      int      `json:"rgrows"`
	RGBytes     int      `json:"rgbytes"`
	BufRows     int      `json:"bufrows"`
	BufBytes    int      `json:"bufbytes"`
	BufTimeMs   int      `json:"buftime_ms"` // 0 = 1h
	IngestBuf   int      `json:"ingestbuf"`
	QueryConc   int      `json:"qconc"`
	Partition   string   `json:"part"` // "none", "field", "const", "idmod3"
	MinMax      []string `json:"minmax,omitempty"`
	MaxFileSize int      `json:"maxfile"`
	MaxMerge    int      `json:"maxmerge"`
}

const partFieldName = "p"

func partitionFunc(kind string) bs.PartitionFunc {
	switch kind {
	case "field":
		return func(row map[string]any) string {
			s, _ := row[partFieldName].(string)
			return s
		}
	case "const":
		return func(map[string]any) string { return "all" }
	case "idmod3":
		return func(row map[string]any) string {
			if id, ok := rowID(row); ok {
				return fmt.Sprintf("m%d", id%3)
			}
			return ""
		}
	}
	return nil
}

func (c EngCfg) Build() bs.BloomSearchEngineConfig {
	cfg := bs.DefaultBloomSearchEngineConfig()
	cfg.Tokenizer = tokenizers[c.Tokenizer].Engine
	cfg.PartitionFunc = partitionFunc(c.Partition)
	cfg.MinMaxIndexes = append([]string(nil), c.MinMax...)
	cfg.MaxRowGroupRows = c.RGRows
	cfg.MaxRowGroupBytes = c.RGBytes
	cfg.MaxBufferedRows = c.BufRows
	cfg.MaxBufferedBytes = c.BufBytes
	cfg.MaxBufferedTime = time.Hour
	if c.BufTimeMs > 0 {
		cfg.MaxBufferedTime = time.Duration(c.BufTimeMs) * time.Millisecond
	}
	cfg.IngestBufferSize = c.IngestBuf
	cfg.MaxQueryConcurrency = c.QueryConc
	cfg.BloomFalsePositiveRate = c.FPR
	cfg.RowDataCompression = bs.CompressionType(c.Compression)
	cfg.ZstdCompressionLevel = c.ZstdLevel
	cfg.MaxFileSize = c.MaxFileSize
	cfg.MaxFilesToMergePerOperation = c.MaxMerge
	return cfg
}

var fprPool = []float64{0.001, 1e-6, 0.01, 1e-9, 0.1, 0.5, 0.9}
var lowFPRPool = []float64{1e-6, 1e-9, 1e-7}

// drawCfg draws an engine configuration. numFields are the candidate minmax
// keys; tokenizer is fixed per history (a different tokenizer over the same
// data changes what the stored filters mean, which no property covers).
func drawCfg(t *rapid.T, tokenizer string, numFields []string, lowFPR bool) EngCfg {
	c := EngCfg{Tokenizer: tokenizer}
	c.Compression = rapid.SampledFrom([]string{"snappy", "none", "zstd", ""}).Draw(t, "comp")
	if c.Compression == "zstd" {
		// The constructor accepts 1-22, but the zstd library's encoder only has
		// levels 1-4: with 5-22 every ingest is answered with "unknown encoder
		// level" and nothing is ever stored (observed; recorded in DESIGN.md
		// section 6 as an observation outside the listed properties). The
		// generator stays inside the levels the code can actually write with.
		c.ZstdLevel = rapid.SampledFrom([]int{3, 1, 2, 4}).Draw(t, "zl")
	}
	if lowFPR {
		c.FPR = rapid.SampledFrom(lowFPRPool).Draw(t, "fpr")
	} else {
		c.FPR = rapid.SampledFrom(fprPool).Draw(t, "fpr")
	}
	c.RGRows = rapid.SampledFrom([]int{10000, 1, 2, 3, 5, 8}).Draw(t, "rgrows")
	c.RGBytes = rapid.SampledFrom([]int{10 << 20, 1, 64, 200, 600, 2000}).Draw(t, "rgbytes")
	c.BufRows = rapid.SampledFrom([]int{1000, 1, 2, 4, 7, 20}).Draw(t, "bufrows")
	c.BufBytes = rapid.SampledFrom([]int{1 << 20, 1, 100, 500, 3000}).Draw(t, "bufbytes")
	c.IngestBuf = rapid.SampledFrom([]int{1000, 1, 2, 8}).Draw(t, "ingestbuf")
	c.QueryConc = rapid.SampledFrom([]int{1000, 1, 2, 3, 8}).Draw(t, "qconc")
	c.Partition = rapid.SampledFrom([]string{"none", "field", "idmod3", "const"}).Draw(t, "part")
	for _, f := range numFields {
		if rapid.Bool().Draw(t, "mm_"+f) {
			c.MinMax = append(c.MinMax, f)
		}
	}
	c.MaxFileSize = rapid.SampledFrom([]int{10 << 30, 1, 500, 2000, 10000}).Draw(t, "maxfile")
	c.MaxMerge = rapid.SampledFrom([]int{10, 2, 3, 5}).Draw(t, "maxmerge")
	return c
}

// ------------------------------------------------------------------ history

type Step struct {
	Op   string  `json:"op"`             // "ingest", "flush", "restart", "merge", "ext"
	Rows []Val   `json:"rows,omitempty"` // ingest / ext
	Cfg  *EngCfg `json:"cfg,omitempty"`  // restart
	Ext  *ExtOpt `json:"ext,omitempty"`  // external writer options
	// During (merge only): ingest / flush steps carried out by the caller while
	// the Merge call is running on another goroutine
	During []Step `json:"during,omitempty"`
}

type History struct {
	Cfg   EngCfg `json:"cfg"`
	Meta  string `json:"meta"` // "mem", "fs"
	Data  string `json:"data"` // "mem", "mem-noabort", "fs"
	Steps []Step `json:"steps"`
	// Faults: one-shot store failures while the history runs (a flush or merge
	// fails, later ones succeed): whatever produced the files
	Faults []HistFault `json:"faults,omitempty"`
	// SlowWriteUs: every DataStore Write takes this long while a merge with
	// During steps is running (so the During steps really overlap it)
	SlowWriteUs int `json:"slow_write_us,omitempty"`
}

type HistFault struct {
	Kind string `json:"kind"` // CreateFile, Write, Close, Update
	N    int    `json:"n"`    // ordinal among the history's calls of that kind
}

// StoredRow is the model's record of one ingested row.
type StoredRow struct {
	ID      int
	Val     Val
	JSON    []byte
	Part    string   // partition id the partition function gave at ingest
	MinMax  []string // minmax keys configured when it was ingested
	CfgIdx  int
	Acked   bool
	AckErr  string
	Ext     bool // written by the external writer
	ExtOpt  *ExtOpt
	Sem     *RowSem
	Facts   RowFacts
	Unknown bool // oracle cannot decide this row (uncertain semantics)
}

// World is the outcome of running a history.
type World struct {
	Hist    History
	Data    bs.DataStore
	Meta    bs.MetaStore
	MemData *MemDataStore
	Dir     string // temp dir for fs stores ("" if none)
	Rows    map[int]*StoredRow
	Order   []int // ids in ingest order
	LastCfg EngCfg
	Merges  int
	// MergeLog holds the stored world as read back immediately before and
	// after every Merge of the history (used by C01/C02 classification and by
	// the C11/C12 oracles).
	MergeLog []MergeObs
	// FaultsFired counts the planned store failures that actually happened
	FaultsFired int
	// MergeRetried: merges that failed on an injected fault and succeeded when
	// the same engine instance tried again; ConcMerges: merges that ran while
	// the caller was ingesting and flushing
	MergeRetried, ConcMerges int
	cleanup     []func()
}

type MergeObs struct {
	Cfg      EngCfg
	Before   []*FileInfo
	After    []*FileInfo
	Stats    *bs.MergeStats
	Combined int // output blocks whose rows come from >=2 source blocks
}

func blockKey(b *BlockInfo) string { return fmt.Sprintf("%s@%d", b.File, b.Meta.RowDataOffset) }

// countCombined: output blocks holding rows of >=2 distinct source blocks.
func countCombined(before, after []*FileInfo) int {
	src := map[int]string{}
	for _, f := range before {
		for _, b := range f.Blocks {
			for _, id := range b.IDs {
				src[id] = blockKey(b)
			}
		}
	}
	n := 0
	for _, f := range after {
		for _, b := range f.Blocks {
			seen := map[string]bool{}
			for _, id := range b.IDs {
				seen[src[id]] = true
			}
			if len(seen) >= 2 {
				n++
			}
		}
	}
	return n
}

func (w *World) Close() {
	for i := len(w.cleanup) - 1; i >= 0; i-- {
		w.cleanup[i]()
	}
}

func newStores(meta, data string) (bs.DataStore, bs.MetaStore, *MemDataStore, string, func(), error) {
	var dir string
	cleanup := func() {}
	var fsStore *bs.FileSystemDataStore
	if meta == "fs" || data == "fs" {
		d, err := os.MkdirTemp("", "verif-fs-")
		if err != nil {
			return nil, nil, nil, "", nil, err
		}
		dir = d
		cleanup = func() { os.RemoveAll(d) }
		fsStore = bs.NewFileSystemDataStore(d)
	}
	var ds bs.DataStore
	var md *MemDataStore
	switch data {
	case "fs":
		ds = fsStore
	case "mem-noabort":
		md = NewMemDataStore(true)
		ds = md
	default:
		md = NewMemDataStore(false)
		ds = md
	}
	var ms bs.MetaStore
	if meta == "fs" {
		if data != "fs" {
			cleanup()
			return nil, nil, nil, "", nil, fmt.Errorf("fs metastore needs fs datastore")
		}
		ms = fsStore
	} else {
		ms = bs.NewMemoryMetaStore()
	}
	return ds, ms, md, dir, cleanup, nil
}

func rowFacts(goRow map[string]any, v Val, cfg EngCfg) RowFacts {
	f := RowFacts{Nums: map[string]Exact{}}
	if pf := partitionFunc(cfg.Partition); pf != nil {
		f.Partition = pf(goRow)
	}
	for _, k := range cfg.MinMax {
		if mv, ok := getMember(v, k); ok {
			if e, isNum := mv.Exact(); isNum && !e.NaN {
				f.Nums[k] = e
			}
		}
	}
	return f
}

// RunHistory executes the history sequentially against fresh stores and returns
// the world plus the model. Every batch is ingested with a buffered done
// channel and explicitly flushed or auto-flushed; a final Flush+Stop drains.
func RunHistory(h History) (*World, error) {
	ds, ms, md, dir, cleanup, err := newStores(h.Meta, h.Data)
	if err != nil {
		return nil, err
	}
	w := &World{Hist: h, Data: ds, Meta: ms, MemData: md, Dir: dir, Rows: map[int]*StoredRow{}, LastCfg: h.Cfg}
	w.cleanup = append(w.cleanup, cleanup)

	cfg := h.Cfg
	cfgIdx := 0
	// the stores the history's engines talk to: the raw ones, or (with planned
	// faults) a tracing wrapper that fails the chosen calls once
	var eds bs.DataStore = ds
	var ems bs.MetaStore = ms
	faulty := len(h.Faults) > 0
	var slowWrites int32
	if faulty || h.SlowWriteUs > 0 {
		tr := NewTrace(ds, ms)
		tr.Before = func(ci *CallInfo) error {
			if ci.Kind == "Write" && atomic.LoadInt32(&slowWrites) == 1 {
				time.Sleep(time.Duration(h.SlowWriteUs) * time.Microsecond)
			}
			for _, f := range h.Faults {
				if f.Kind == ci.Kind && f.N == ci.KindSeq {
					w.FaultsFired++
					return fmt.Errorf("%w (history fault %s #%d)", errInjected, f.Kind, f.N)
				}
			}
			return nil
		}
		eds, ems = tr, tr
	}
	eng, err := bs.NewBloomSearchEngine(cfg.Build(), ems, eds)
	if err != nil {
		w.Close()
		return nil, fmt.Errorf("engine config rejected: %w", err)
	}
	eng.Start()
	ctx := context.Background()
	type pending struct {
		ch  chan error
		ids []int
	}
	var pend []pending
	nextID := 1
	tok := tokenizers[cfg.Tokenizer].Oracle

	settle := func() error {
		fctx, cancel := context.WithTimeout(ctx, 60*time.Second)
		defer cancel()
		if err := eng.Flush(fctx); err != nil && !faulty {
			return fmt.Errorf("flush: %w", err)
		}
		for _, p := range pend {
			select {
			case err := <-p.ch:
				for _, id := range p.ids {
					if err == nil {
						w.Rows[id].Acked = true
					} else {
						w.Rows[id].AckErr = err.Error()
					}
				}
			case <-time.After(60 * time.Second):
				return fmt.Errorf("ack not delivered after Flush returned")
			}
		}
		pend = nil
		return nil
	}
	stop := func() error {
		if err := settle(); err != nil {
			return err
		}
		sctx, cancel := context.WithTimeout(ctx, 60*time.Second)
		defer cancel()
		return eng.Stop(sctx)
	}

	ingest := func(si int, vals []Val) error {
		rows := make([]map[string]any, 0, len(vals))
		var ids []int
		for _, r := range vals {
			id := nextID
			nextID++
			rv := withID(r, id)
			g := rowGo(rv)
			jb, err := json.Marshal(g)
			if err != nil {
				return fmt.Errorf("step %d: generated row not marshalable: %v", si, err)
			}
			em, err := emissionsOf(jb)
			if err != nil {
				return fmt.Errorf("step %d: oracle cannot parse marshaled row %s: %v", si, jb, err)
			}
			sr := &StoredRow{ID: id, Val: rv, JSON: jb, CfgIdx: cfgIdx, MinMax: append([]string(nil), cfg.MinMax...),
				Sem: rowSem(em, tok), Facts: rowFacts(g, rv, cfg), Unknown: em.Uncertain}
			sr.Part = sr.Facts.Partition
			w.Rows[id] = sr
			w.Order = append(w.Order, id)
			rows = append(rows, g)
			ids = append(ids, id)
		}
		ch := make(chan error, 1)
		if err := eng.IngestRows(ctx, rows, ch); err != nil {
			return fmt.Errorf("step %d: IngestRows: %v", si, err)
		}
		pend = append(pend, pending{ch, ids})
		return nil
	}

	for si, st := range h.Steps {
		switch st.Op {
		case "ingest":
			if err := ingest(si, st.Rows); err != nil {
				w.Close()
				return nil, err
			}
		case "flush":
			if err := settle(); err != nil {
				w.Close()
				return nil, fmt.Errorf("step %d: %v", si, err)
			}
		case "restart":
			if err := stop(); err != nil {
				w.Close()
				return nil, fmt.Errorf("step %d: stop: %v", si, err)
			}
			cfg = *st.Cfg
			cfgIdx++
			w.LastCfg = cfg
			eng, err = bs.NewBloomSearchEngine(cfg.Build(), ems, eds)
			if err != nil {
				w.Close()
				return nil, fmt.Errorf("step %d: engine config rejected: %w", si, err)
			}
			eng.Start()
		case "merge":
			if err := settle(); err != nil {
				w.Close()
				return nil, fmt.Errorf("step %d: %v", si, err)
			}
			before, err := ReadWorld(ds, ms)
			if err != nil {
				w.Close()
				return nil, fmt.Errorf("step %d: world unreadable before merge: %v", si, err)
			}
			if len(st.During) > 0 {
				// the caller keeps ingesting and flushing while Merge runs
				type mres struct{ err error }
				done := make(chan mres, 1)
				atomic.StoreInt32(&slowWrites, 1)
				go func() {
					_, merr := eng.Merge(ctx)
					done <- mres{merr}
				}()
				var derr error
				for _, d := range st.During {
					switch d.Op {
					case "ingest":
						derr = ingest(si, d.Rows)
					case "flush":
						derr = settle()
					}
					if derr != nil {
						break
					}
				}
				if derr == nil {
					derr = settle()
				}
				r := <-done
				atomic.StoreInt32(&slowWrites, 0)
				if derr != nil {
					w.Close()
					return nil, fmt.Errorf("step %d (during a merge): %v", si, derr)
				}
				if r.err != nil && !faulty {
					w.Close()
					return nil, fmt.Errorf("step %d: merge (with concurrent ingest) failed on healthy stores: %v", si, r.err)
				}
				w.ConcMerges++
				continue
			}
			stats, err := eng.Merge(ctx)
			if err != nil && faulty {
				// a merge that failed on an injected fault (all-or-nothing is C13's
				// subject): the same engine instance tries again right away
				if before, err = ReadWorld(ds, ms); err != nil {
					w.Close()
					return nil, fmt.Errorf("step %d: world unreadable after a failed merge: %v", si, err)
				}
				stats, err = eng.Merge(ctx)
				if err != nil {
					continue
				}
				w.MergeRetried++
			}
			if err != nil {
				w.Close()
				return nil, fmt.Errorf("step %d: merge failed on healthy stores: %v", si, err)
			}
			after, err := ReadWorld(ds, ms)
			if err != nil {
				w.Close()
				return nil, fmt.Errorf("step %d: world unreadable after merge: %v", si, err)
			}
			w.MergeLog = append(w.MergeLog, MergeObs{Cfg: cfg, Before: before, After: after, Stats: stats, Combined: countCombined(before, after)})
			w.Merges++
		case "ext":
			if err := settle(); err != nil {
				w.Close()
				return nil, fmt.Errorf("step %d: %v", si, err)
			}
			ids, err := writeExternalFile(w, cfg, cfgIdx, st, &nextID)
			if err != nil {
				w.Close()
				return nil, fmt.Errorf("step %d: external writer: %v", si, err)
			}
			_ = ids
		}
	}
	if err := stop(); err != nil {
		w.Close()
		return nil, fmt.Errorf("final stop: %v", err)
	}
	return w, nil
}

// NewEngine builds a fresh (not started) engine over the world's stores, with
// optional store wrappers. Queries work on engines that were never started.
func (w *World) NewEngine(cfg EngCfg, ds bs.DataStore, ms bs.MetaStore) (*bs.BloomSearchEngine, error) {
	if ds == nil {
		ds = w.Data
	}
	if ms == nil {
		ms = w.Meta
	}
	return bs.NewBloomSearchEngine(cfg.Build(), ms, ds)
}

// ------------------------------------------------------------ reading back

type BlockInfo struct {
	File  string
	Meta  bs.DataBlockMetadata
	IDs   []int
	Rows  [][]byte
	Index int // position in the file's DataBlocks
}

type FileInfo struct {
	Ptr    string
	Meta   bs.FileMetadata
	Blocks []*BlockInfo
}

// ReadWorld lists every referenced file through the MetaStore and decodes every
// block through the public read helpers.
func ReadWorld(ds bs.DataStore, ms bs.MetaStore) ([]*FileInfo, error) {
	ctx := context.Background()
	var files []*FileInfo
	for f, err := range ms.GetMaybeFilesForQuery(ctx, nil) {
		if err != nil {
			return nil, err
		}
		fi := &FileInfo{Ptr: string(f.PointerBytes), Meta: f.Metadata}
		r, err := ds.OpenFile(ctx, f.PointerBytes)
		if err != nil {
			return nil, fmt.Errorf("open %s: %w", fi.Ptr, err)
		}
		for i := range f.Metadata.DataBlocks {
			bm := f.Metadata.DataBlocks[i]
			data, err := bs.ReadDataBlockRowData(r, &bm)
			if err != nil {
				r.Close()
				return nil, fmt.Errorf("file %s block %d: %w", fi.Ptr, i, err)
			}
			bi := &BlockInfo{File: fi.Ptr, Meta: bm, Index: i}
			sc := bs.NewBlockRowScanner(data)
			for {
				row, ok, err := sc.Next()
				if err != nil {
					r.Close()
					return nil, fmt.Errorf("file %s block %d: %w", fi.Ptr, i, err)
				}
				if !ok {
					break
				}
				rb := append([]byte(nil), row...)
				bi.Rows = append(bi.Rows, rb)
				bi.IDs = append(bi.IDs, idOfRowJSON(rb))
			}
			fi.Blocks = append(fi.Blocks, bi)
		}
		r.Close()
		files = append(files, fi)
	}
	sort.Slice(files, func(i, j int) bool { return files[i].Ptr < files[j].Ptr })
	return files, nil
}

// idOfRowJSON finds the top-level "id" of a stored row by walking the token
// stream (numbers are kept as literals, so rows holding numbers that float64
// cannot represent, e.g. 1e400, still yield their id). -1 when absent.
func idOfRowJSON(b []byte) int {
	dec := json.NewDecoder(bytes.NewReader(b))
	dec.UseNumber()
	tok, err := dec.Token()
	if d, ok := tok.(json.Delim); err != nil || !ok || d != '{' {
		return -1
	}
	for dec.More() {
		kt, err := dec.Token()
		if err != nil {
			return -1
		}
		key, _ := kt.(string)
		// read the value: either a scalar token or a nested container to skip
		vt, err := dec.Token()
		if err != nil {
			return -1
		}
		if d, ok := vt.(json.Delim); ok && (d == '{' || d == '[') {
			depth := 1
			for depth > 0 {
				t2, err := dec.Token()
				if err != nil {
					return -1
				}
				if d2, ok := t2.(json.Delim); ok {
					if d2 == '{' || d2 == '[' {
						depth++
					} else {
						depth--
					}
				}
			}
			continue
		}
		if key == "id" {
			if n, ok := vt.(json.Number); ok {
				if i, err := n.Int64(); err == nil {
					return int(i)
				}
			}
			return -1
		}
	}
	return -1
}

func readAllFile(ds bs.DataStore, ptr string) ([]byte, error) {
	r, err := ds.OpenFile(context.Background(), []byte(ptr))
	if err != nil {
		return nil, err
	}
	defer r.Close()
	return io.ReadAll(r)
}

func hashStrings(parts ...string) string {
	h := fnv.New64a()
	for _, p := range parts {
		h.Write([]byte(p))
		h.Write([]byte{0})
	}
	return fmt.Sprintf("%016x", h.Sum64())
}

func shortJSON(v any, n int) string {
	s := jsonKey(v)
	if len(s) > n {
		return s[:n] + "..."
	}
	return s
}

func joinInts(ids []int) string {
	parts := make([]string, len(ids))
	for i, id := range ids {
		parts[i] = fmt.Sprint(id)
	}
	return strings.Join(parts, ",")
}

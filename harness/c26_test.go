package harness

// C26 — bloom filters meet the configured false-positive rate at any volume.
// Statistical check: files written by the engine (flush, and merge of two
// flushed files) for n distinct entries at rate p; the measured rate over M
// absent probes must stay within tolerance of max(p, theoretical rate of the
// filter's own parameters for the true n).

import (
	"bytes"
	"context"
	"fmt"
	"math"
	"testing"
	"time"

	"github.com/bits-and-blooms/bloom/v3"
	bs "github.com/danthegoodman1/bloomsearch"
	"pgregory.net/rapid"
)

type c26Case struct {
	N          int     `json:"n"`          // distinct tokens
	PerRow     int     `json:"perrow"`     // tokens per row
	FPR        float64 `json:"fpr"`        // configured rate
	Partitions int     `json:"partitions"` // blocks per flushed file
	Merge      bool    `json:"merge"`      // write two files and merge them
	Comp       string  `json:"comp"`
	Big        bool    `json:"big,omitempty"` // volume phase: more probes
	// Fields: the same text is stored under this many top-level fields, so the
	// field:token set is that many times the token set (0/1 = one field)
	Fields int `json:"fields,omitempty"`
	// MergeFPR: the merge is run by a second engine over the same stores whose
	// configured rate is this one (0 = the writing engine merges)
	MergeFPR float64 `json:"merge_fpr,omitempty"`
	// Solo: a tenth of the second file's rows go to a partition of their own:
	// that block has no merge partner and is copied verbatim by the merge
	Solo bool `json:"solo,omitempty"`
}

func genC26() *rapid.Generator[c26Case] {
	return rapid.Custom(func(t *rapid.T) c26Case {
		maxN := 20000
		if thorough() {
			maxN = 300000
		}
		c := c26Case{}
		switch unif(t, "ncls", 6) {
		case 0:
			c.N = rapid.IntRange(1, 20).Draw(t, "n")
		case 1:
			c.N = rapid.IntRange(20, 1000).Draw(t, "n")
		case 2, 3:
			c.N = rapid.IntRange(1000, maxN/4).Draw(t, "n")
		default:
			c.N = rapid.IntRange(maxN/4, maxN).Draw(t, "n")
		}
		c.PerRow = pick(t, "perrow", []int{50, 1, 7, 200})
		c.FPR = pick(t, "fpr", []float64{0.01, 0.001, 0.1, 0.5, 0.0001, 0.3, 0.9, 0.03, 1e-6, 1e-9})
		c.Partitions = pick(t, "parts", []int{1, 3, 2})
		c.Merge = chance(t, "merge", 35)
		c.Comp = pick(t, "comp", []string{"snappy", "none"})
		c.Fields = pick(t, "fields", []int{1, 1, 2, 5, 8})
		if c.Merge && chance(t, "mergefpr", 60) {
			c.MergeFPR = pick(t, "mfpr", []float64{0.001, 0.0001, 0.01, 1e-6, 0.1})
		}
		c.Solo = c.Merge && chance(t, "solo", 50)
		return c
	})
}

// genC26Big: the "any volume" end of the quantifier. Hundreds of thousands to
// millions of distinct entries in ONE block at strict rates, where a size cap,
// an overflow or a sizing shortcut in the filter builder first shows.
func genC26Big() *rapid.Generator[c26Case] {
	return rapid.Custom(func(t *rapid.T) c26Case {
		lo, hi := 250000, 1000000
		if thorough() {
			hi = 3000000
		}
		c := c26Case{Big: true}
		c.N = rapid.IntRange(lo, hi).Draw(t, "n")
		c.PerRow = pick(t, "perrow", []int{2000, 500, 20000})
		c.FPR = pick(t, "fpr", []float64{1e-4, 1e-6, 1e-9, 0.001, 0.01, 1e-12})
		c.Partitions = pick(t, "parts", []int{1, 1, 2})
		c.Merge = chance(t, "merge", 25)
		c.Comp = pick(t, "comp", []string{"snappy", "none"})
		return c
	})
}

func theoreticalFPR(f *bloom.BloomFilter, n int) float64 {
	m, k := float64(f.Cap()), float64(f.K())
	if m == 0 {
		return 1
	}
	return math.Pow(1-math.Exp(-k*float64(n)/m), k)
}

func measureFPR(f *bloom.BloomFilter, probes int, prefix string) float64 {
	hits := 0
	for j := 0; j < probes; j++ {
		if f.TestString(fmt.Sprintf("%sabsent-%d-x", prefix, j)) {
			hits++
		}
	}
	return float64(hits) / float64(probes)
}

func c26Bound(p float64, probes int) float64 {
	return p*1.1 + 5*math.Sqrt(p*(1-p)/float64(probes)) + 2/float64(probes)
}

func runC26(c c26Case) *Violation {
	Ev.Eval(1)
	cfg := bs.DefaultBloomSearchEngineConfig()
	cfg.MaxBufferedTime = time.Hour
	cfg.MaxBufferedRows = 1 << 30
	cfg.MaxBufferedBytes = 1 << 30
	cfg.MaxRowGroupRows = 1 << 30
	cfg.MaxRowGroupBytes = 1 << 30
	cfg.BloomFalsePositiveRate = c.FPR
	cfg.RowDataCompression = bs.CompressionType(c.Comp)
	if c.Partitions > 1 || c.Solo {
		np := c.Partitions
		if np < 1 {
			np = 1
		}
		cfg.PartitionFunc = func(row map[string]any) string {
			if s, _ := row["solo"].(bool); s {
				return "solo"
			}
			return fmt.Sprintf("p%d", row["id"].(int)%np)
		}
	}
	ds := NewMemDataStore(false)
	ms := bs.NewMemoryMetaStore()
	eng, err := bs.NewBloomSearchEngine(cfg, ms, ds)
	if err != nil {
		return violf("config rejected: %v", err)
	}
	eng.Start()
	ctx := context.Background()
	defer func() {
		sctx, cancel := context.WithTimeout(ctx, 30*time.Second)
		eng.Stop(sctx)
		cancel()
	}()
	files := 1
	if c.Merge {
		files = 2
	}
	tok := 0
	rowID := 0
	firstFileRows := 0
	for fi := 0; fi < files; fi++ {
		if fi == 1 {
			firstFileRows = rowID
		}
		var rows []map[string]any
		share := c.N / files
		if fi == files-1 {
			share = c.N - share*(files-1)
		}
		for left := share; left > 0; {
			k := c.PerRow
			if k > left {
				k = left
			}
			var sb bytes.Buffer
			for j := 0; j < k; j++ {
				fmt.Fprintf(&sb, "w%d ", tok)
				tok++
			}
			row := map[string]any{"id": rowID, "t": sb.String()}
			for f := 1; f < c.Fields; f++ {
				row[fmt.Sprintf("t%d", f)] = row["t"]
			}
			if c.Solo && fi == 1 && rowID%10 == 0 {
				row["solo"] = true
			}
			rows = append(rows, row)
			rowID++
			left -= k
		}
		done := make(chan error, 1)
		if err := eng.IngestRows(ctx, rows, done); err != nil {
			return violf("ingest: %v", err)
		}
		if err := eng.Flush(ctx); err != nil {
			return violf("flush: %v", err)
		}
		if err := <-done; err != nil {
			return violf("ack: %v", err)
		}
	}
	split := rowID // ids below split were written by... (set below for two-file cases)
	_ = split
	if c.Merge {
		meng := eng
		if c.MergeFPR > 0 {
			sctx, cancel := context.WithTimeout(ctx, 30*time.Second)
			eng.Stop(sctx)
			cancel()
			cfg2 := cfg
			cfg2.BloomFalsePositiveRate = c.MergeFPR
			meng, err = bs.NewBloomSearchEngine(cfg2, ms, ds)
			if err != nil {
				return violf("config rejected: %v", err)
			}
		}
		if _, err := meng.Merge(ctx); err != nil {
			return violf("merge failed on healthy stores: %v", err)
		}
	}
	// the rate a filter has to meet: the configured rate of the engine that
	// built it. Block and file filters of a merge output that combined blocks
	// are rebuilt by the merging engine; blocks copied verbatim keep the filter
	// (and the recorded rate) of the engine that wrote them.
	mergeRate := c.FPR
	if c.Merge && c.MergeFPR > 0 {
		mergeRate = c.MergeFPR
	}
	rateNow := c.FPR
	worldFiles, err := ReadWorld(ds, ms)
	if err != nil {
		return violf("world unreadable: %v", err)
	}
	probes := 20000
	if thorough() {
		probes = 60000
	}
	if c.Big {
		probes = 200000
	}
	// check compares one of the library's filters with a reference filter the
	// harness builds itself for the TRUE distinct entries at the configured rate
	// (bloom.NewWithEstimates(n, p) + the same entries): parameters must not be
	// worse, and the measured rate over the same absent probes must stay within
	// statistical tolerance of the reference's measured rate.
	check := func(level, which string, f *bloom.BloomFilter, entries map[string]bool, prefix string) *Violation {
		if f == nil {
			return violf("%s-level %s filter missing in an engine-written file", level, which)
		}
		n := len(entries)
		ref := buildFilter(entries, rateNow, 0)
		for e := range entries {
			if !f.TestString(e) {
				return violf("%s-level %s filter does not contain entry %q", level, which, e)
			}
		}
		theoLib, theoRef := theoreticalFPR(f, n), theoreticalFPR(ref, n)
		if theoLib > theoRef*1.5+1e-15 {
			return violf("%s-level %s filter holding %d distinct entries has parameters (m=%d bits, k=%d) giving a theoretical false-positive rate %.3g; a filter sized for %d entries at the configured %.3g has m=%d k=%d and %.3g", level, which, n, f.Cap(), f.K(), theoLib, n, rateNow, ref.Cap(), ref.K(), theoRef)
		}
		got := measureFPR(f, probes, prefix)
		want := measureFPR(ref, probes, prefix)
		base := math.Max(want, rateNow)
		bound := base*1.1 + 7*math.Sqrt(math.Max(base, 1/float64(probes))*(1-math.Min(base, 0.999))/float64(probes)) + 2/float64(probes)
		if got > bound {
			return violf("%s-level %s filter holding %d distinct entries: measured false-positive rate %.4g over %d absent probes; a reference filter sized for the true count at the configured %.4g measures %.4g (bound %.4g; library m=%d k=%d, reference m=%d k=%d)", level, which, n, got, probes, rateNow, want, bound, f.Cap(), f.K(), ref.Cap(), ref.K())
		}
		return nil
	}
	for _, fi := range worldFiles {
		raw, _ := readAllFile(ds, fi.Ptr)
		lm, _, err := bs.ReadFileMetadata(bytes.NewReader(raw))
		if err != nil {
			return violf("ReadFileMetadata: %v", err)
		}
		fileSets := newEntrySets()
		anyCombined := false
		for bi, b := range fi.Blocks {
			bf, err := bs.ReadDataBlockBloomFilters(bytes.NewReader(raw), b.Meta)
			if err != nil {
				return violf("ReadDataBlockBloomFilters: %v", err)
			}
			es := newEntrySets()
			// a block holding rows of both written files was combined by the merge
			lo, hi := false, false
			for _, id := range b.IDs {
				if id < firstFileRows {
					lo = true
				} else {
					hi = true
				}
			}
			rateNow = c.FPR
			if c.Merge && lo && hi {
				rateNow = mergeRate
				anyCombined = true
			}
			if b.Meta.BloomFalsePositiveRate != rateNow {
				return violf("block[%d] records BloomFalsePositiveRate %g, the engine that built its filters was configured with %g", bi, b.Meta.BloomFalsePositiveRate, rateNow)
			}
			for _, r := range b.Rows {
				em, err := emissionsOf(r)
				if err != nil {
					continue
				}
				rs := rowSem(em, refDefaultTokens)
				es.addRow(rs)
				fileSets.addRow(rs)
			}
			lvl := fmt.Sprintf("block[%d]", bi)
			if v := check(lvl, "token", bf.TokenBloomFilter, es.tokens, ""); v != nil {
				return v
			}
			if v := check(lvl, "field:token", bf.FieldTokenBloomFilter, es.fts, "t::"); v != nil {
				return v
			}
			if v := check(lvl, "field", bf.FieldBloomFilter, es.fields, ""); v != nil {
				return v
			}
		}
		// file-level filters: built by whichever engine wrote this file; a file
		// holding a combined block was written by the merging engine
		rateNow = lm.BloomFalsePositiveRate
		if rateNow != c.FPR && rateNow != mergeRate {
			return violf("file records BloomFalsePositiveRate %g; the engines involved were configured with %g and %g", rateNow, c.FPR, mergeRate)
		}
		if anyCombined && rateNow != mergeRate {
			return violf("merge output records BloomFalsePositiveRate %g, the merging engine was configured with %g", rateNow, mergeRate)
		}
		if v := check("file", "token", lm.BloomFilters.TokenBloomFilter, fileSets.tokens, ""); v != nil {
			return v
		}
		if v := check("file", "field:token", lm.BloomFilters.FieldTokenBloomFilter, fileSets.fts, "t::"); v != nil {
			return v
		}
		if v := check("file", "field", lm.BloomFilters.FieldBloomFilter, fileSets.fields, ""); v != nil {
			return v
		}
	}
	Ev.Class(fmt.Sprintf("fpr=%g", c.FPR))
	if c.Merge {
		Ev.Class("merged")
	}
	if c.Big {
		Ev.Class(fmt.Sprintf("volume n>=%dk", c.N/250000*250))
	}
	if c.N >= 1000 && c.FPR <= 0.1 {
		Ev.NonTrivial(jsonKey(c))
		if Ev.WantSample() {
			Ev.Sample(c)
		}
	}
	return nil
}

func TestC26(t *testing.T) {
	Ev.Rule = "case = n distinct tokens (1 .. 20 000 quick / 300 000 thorough; 1-200 tokens per row), configured rate from {0.9 .. 1e-4}, 1-3 blocks per file, the text stored under 1-8 fields (field:token sets up to 8x the token sets), optionally two files merged — by the writing engine or by a second engine configured with a different rate (a combined block and the output's file-level filters must then meet the merging engine's rate, and record it); plus a volume phase with 250 000 .. 1 000 000 (thorough 3 000 000) distinct entries in one or two blocks at rates 1e-2 .. 1e-12 and 200 000 probes. Oracle (differential): for every file-level and block-level filter of the written files the harness builds a reference filter for the TRUE distinct entries (recomputed with its own walker/tokenizer) at the configured rate; (a) the library filter's parameters must not give a theoretical rate worse than 1.5x the reference's, (b) its measured rate over 20 000 (60 000) absent probes must be <= 1.1*max(reference measured rate, p) + 7 sigma, (c) it contains every entry. Non-trivial: n >= 1000 and p <= 0.1; distinct by case."
	Ev.Assumptions = []string{"statistical: 7-sigma tolerance per filter against a reference filter measured on the same probes", "absent probes are strings that were never inserted"}
	Ev.Level = "exploration"
	runChecks(t, "fpr", 60, 700, genC26(), runC26)
	runChecks(t, "volume", 6, 80, genC26Big(), runC26)
}

var _ = rapid.Bool

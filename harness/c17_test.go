package harness

// C17 — every written file describes itself truthfully.
// C18 — indexes cover their data at every level of the hierarchy.
// Both look at the files left behind by generated histories (flush, limit-
// triggered flush, restart with another configuration, merge, external writer).

import (
	"strings"
	"bytes"
	"context"
	"encoding/binary"
	"fmt"
	"io"
	"testing"

	"github.com/bits-and-blooms/bloom/v3"
	bs "github.com/danthegoodman1/bloomsearch"
	"pgregory.net/rapid"
)

type FileCase struct {
	Hist History `json:"hist"`
}

func genFileCase() *rapid.Generator[FileCase] {
	return rapid.Custom(func(t *rapid.T) FileCase {
		if rapid.Bool().Draw(t, "mergeheavy") {
			return FileCase{Hist: drawHistory(t, mergeHeavyOpts)}
		}
		return FileCase{Hist: drawHistory(t, searchOpts)}
	})
}

// genFileCaseFaulted: the same histories with one-shot store failures inside
// (a failed flush or merge, then successful ones on the same engine).
func genFileCaseFaulted() *rapid.Generator[FileCase] {
	return rapid.Custom(func(t *rapid.T) FileCase {
		o := searchOpts
		if rapid.Bool().Draw(t, "mergeheavy") {
			o = mergeHeavyOpts
		}
		o.Faults = true
		return FileCase{Hist: drawHistory(t, o)}
	})
}

// genFileCaseConcurrent: a merge-heavy history whose last ingest / flush steps
// are carried out while a Merge of what was stored before is running (store
// writes slowed down so that the two really overlap): files written by a flush
// and by a merge at the same time, in one process.
func genFileCaseConcurrent() *rapid.Generator[FileCase] {
	return rapid.Custom(func(t *rapid.T) FileCase {
		o := mergeHeavyOpts
		o.Ext = false
		o.GroupedParts = chance(t, "grouped", 30)
		h := drawHistory(t, o)
		for len(h.Steps) > 0 && h.Steps[len(h.Steps)-1].Op == "merge" {
			h.Steps = h.Steps[:len(h.Steps)-1]
		}
		// the longest tail of ingest / flush steps, at most half the history
		cut := len(h.Steps)
		for cut > (len(h.Steps)+1)/2 && (h.Steps[cut-1].Op == "ingest" || h.Steps[cut-1].Op == "flush") {
			cut--
		}
		var during []Step
		for _, st := range h.Steps[cut:] {
			during = append(during, st)
			if st.Op == "ingest" {
				during = append(during, Step{Op: "flush"}) // every batch becomes its own file
			}
		}
		extra := rapid.IntRange(0, 6).Draw(t, "extraflushes")
		for i := 0; i < extra && len(during) > 0; i++ {
			src := during[unif(t, "extrasrc", len(during))]
			if src.Op == "ingest" {
				during = append(during, src, Step{Op: "flush"})
			}
		}
		h.Steps = append(h.Steps[:cut:cut], Step{Op: "flush"}, Step{Op: "merge", During: during})
		if chance(t, "thenmerge", 50) {
			h.Steps = append(h.Steps, Step{Op: "merge"})
		}
		h.SlowWriteUs = pick(t, "slowwrite", []int{300, 1500, 4000})
		return FileCase{Hist: h}
	})
}

// genFileCaseShapes: extreme but legal block shapes — thousands of identical
// or near-identical rows (compression ratios in the thousands under zstd), one
// multi-hundred-KB row, empty-ish rows — flushed in 1-4 files and merged.
func genFileCaseShapes() *rapid.Generator[FileCase] {
	return rapid.Custom(func(t *rapid.T) FileCase {
		h := History{Cfg: drawCfg(t, "default", numFieldPool, true), Meta: "mem", Data: pick(t, "data", []string{"mem", "fs"})}
		if h.Data == "fs" {
			h.Meta = pick(t, "meta", []string{"fs", "mem"})
		}
		h.Cfg.Compression = pick(t, "comp", []string{"zstd", "zstd", "snappy", "none", ""})
		h.Cfg.ZstdLevel = pick(t, "zl", []int{1, 3, 9, 19})
		h.Cfg.Partition = pick(t, "part", []string{"none", "const", "idmod3"})
		h.Cfg.RGRows, h.Cfg.RGBytes = 100000, 64<<20
		h.Cfg.BufRows, h.Cfg.BufBytes, h.Cfg.BufTimeMs = 1000000, 1<<30, 0
		h.Cfg.MaxFileSize, h.Cfg.MaxMerge = 10<<30, 10
		nfl := rapid.IntRange(1, 4).Draw(t, "nflushes")
		for i := 0; i < nfl; i++ {
			var rows []Val
			switch pick(t, "shape", []string{"identical", "fatident", "fatident", "near", "huge", "tiny"}) {
			case "fatident":
				// rows that differ only in their id and carry the same 8-30 KB value:
				// compression ratios far beyond 1000:1
				n := pick(t, "nfat", []int{100, 250, 400})
				blob := VStr(strings.Repeat(pick(t, "fatunit", []string{"a", "log line ", "0123456789"}), pick(t, "fatlen", []int{8000, 30000})/9))
				for j := 0; j < n; j++ {
					rows = append(rows, Val{K: "obj", O: []KV{{K: "blob", V: blob}, {K: "level", V: VStr("info")}}})
				}
			case "identical":
				n := pick(t, "nident", []int{700, 1500, 3000, 6000})
				r := Val{K: "obj", O: []KV{{K: "msg", V: VStr("the same line again and again")}, {K: "level", V: VStr("info")}, {K: "n", V: VInt(7)}}}
				for j := 0; j < n; j++ {
					rows = append(rows, r)
				}
			case "near":
				n := pick(t, "nnear", []int{500, 2000, 4000})
				for j := 0; j < n; j++ {
					rows = append(rows, Val{K: "obj", O: []KV{{K: "msg", V: VStr("request served")}, {K: "seq", V: VInt(int64(j % 10))}}})
				}
			case "huge":
				n := pick(t, "hugelen", []int{100000, 400000, 1500000})
				unit := pick(t, "hugeunit", []string{"a", "ab cd ", "x y z "})
				rows = append(rows, Val{K: "obj", O: []KV{{K: "blob", V: VStr(strings.Repeat(unit, n/len(unit)))}}})
				rows = append(rows, Val{K: "obj", O: []KV{{K: "msg", V: VStr("small neighbour")}}})
			default:
				n := pick(t, "ntiny", []int{1, 50, 900})
				for j := 0; j < n; j++ {
					rows = append(rows, Val{K: "obj", O: nil})
				}
			}
			h.Steps = append(h.Steps, Step{Op: "ingest", Rows: rows}, Step{Op: "flush"})
		}
		if chance(t, "merge", 70) {
			h.Steps = append(h.Steps, Step{Op: "merge"})
		}
		return FileCase{Hist: h}
	})
}

func filterBytes(f *bloom.BloomFilter) []byte {
	if f == nil {
		return nil
	}
	var b bytes.Buffer
	f.WriteTo(&b)
	return b.Bytes()
}

func sameFilters(lib *bs.BloomFilters, ref *refFilters) string {
	var l [3]*bloom.BloomFilter
	if lib != nil {
		l = [3]*bloom.BloomFilter{lib.FieldBloomFilter, lib.TokenBloomFilter, lib.FieldTokenBloomFilter}
	}
	var r [3]*bloom.BloomFilter
	if ref != nil {
		r = [3]*bloom.BloomFilter{ref.Field, ref.Token, ref.FieldToken}
	}
	names := []string{"field", "token", "field:token"}
	for i := range l {
		if (l[i] == nil) != (r[i] == nil) {
			return fmt.Sprintf("%s filter present=%v in the library's view, %v in the file", names[i], l[i] != nil, r[i] != nil)
		}
		if l[i] != nil && !bytes.Equal(filterBytes(l[i]), filterBytes(r[i])) {
			return fmt.Sprintf("%s filter bits differ from the bytes in the file", names[i])
		}
	}
	return ""
}

type worldFiles struct {
	w     *World
	files []*FileInfo
	raw   map[string][]byte
	ref   map[string]*refFile
}

func hasExtStep(h History) bool {
	for _, s := range h.Steps {
		if s.Op == "ext" {
			return true
		}
	}
	return false
}

func mergeOutputs(w *World) map[string]mergeShape {
	out := map[string]mergeShape{}
	for _, m := range w.MergeLog {
		sh := analyseMerge(m)
		for _, f := range sh.added {
			out[f.Ptr] = sh
		}
	}
	return out
}

func blockDistinctCounts(rows []*StoredRow) bs.BloomEntryCounts {
	es := newEntrySets()
	for _, r := range rows {
		es.addRow(r.Sem)
	}
	return bs.BloomEntryCounts{Fields: len(es.fields), Tokens: len(es.tokens), FieldTokens: len(es.fts)}
}

func judgeC17(w *World, files []*FileInfo) *Violation {
	strict := !hasExtStep(w.Hist)
	mo := mergeOutputs(w)
	seen := map[int]int{}
	for _, fi := range files {
		Ev.Eval(1)
		raw, err := readAllFile(w.Data, fi.Ptr)
		if err != nil {
			return violf("referenced file %s cannot be read: %v", fi.Ptr, err)
		}
		rf, err := refReadFile(raw, strict)
		if err != nil {
			return violf("file %s does not describe itself truthfully (independent reader, FILE_FORMAT.md): %v", fi.Ptr, err)
		}
		// the library's own parser
		lm, size, err := bs.ReadFileMetadata(bytes.NewReader(raw))
		if err != nil {
			return violf("ReadFileMetadata fails on file %s written by flush/merge: %v", fi.Ptr, err)
		}
		if size != int64(len(raw)) {
			return violf("ReadFileMetadata reports size %d for file %s of %d bytes", size, fi.Ptr, len(raw))
		}
		if jsonKey(lm.DataBlocks) != jsonKey(rf.Meta.DataBlocks) || lm.BlockFilterRegionOffset != rf.Meta.BlockFilterRegionOffset || lm.BlockFilterRegionSize != rf.Meta.BlockFilterRegionSize ||
			lm.BloomEntryCounts != rf.Meta.BloomEntryCounts || lm.BloomFalsePositiveRate != rf.Meta.BloomFalsePositiveRate {
			return violf("ReadFileMetadata disagrees with the metadata JSON stored in file %s:\nlibrary %s\nfile    %s", fi.Ptr, shortJSON(lm, 800), shortJSON(rf.Meta, 800))
		}
		if d := sameFilters(&lm.BloomFilters, rf.FileFilters); d != "" {
			return violf("file %s file-level filters: %s", fi.Ptr, d)
		}
		// metadata held by the MetaStore == metadata in the file
		if jsonKey(fi.Meta.DataBlocks) != jsonKey(rf.Meta.DataBlocks) || fi.Meta.BlockFilterRegionOffset != rf.Meta.BlockFilterRegionOffset || fi.Meta.BlockFilterRegionSize != rf.Meta.BlockFilterRegionSize {
			return violf("MetaStore metadata of %s differs from the file's own metadata:\nmetastore %s\nfile      %s", fi.Ptr, shortJSON(fi.Meta.DataBlocks, 800), shortJSON(rf.Meta.DataBlocks, 800))
		}
		var fileRows []*StoredRow
		fileDecidable := true
		for bi, rb := range rf.Blocks {
			bm := rb.Meta
			// public helpers agree with the independent reader
			data, err := bs.ReadDataBlockRowData(bytes.NewReader(raw), &bm)
			if err != nil {
				return violf("ReadDataBlockRowData fails on file %s block %d: %v", fi.Ptr, bi, err)
			}
			var reframed bytes.Buffer
			for _, r := range rb.Rows {
				var l [4]byte
				binary.LittleEndian.PutUint32(l[:], uint32(len(r)))
				reframed.Write(l[:])
				reframed.Write(r)
			}
			if !bytes.Equal(data, reframed.Bytes()) {
				return violf("ReadDataBlockRowData returns different bytes than the block's row data (file %s block %d)", fi.Ptr, bi)
			}
			sc := bs.NewBlockRowScanner(data)
			for ri := 0; ; ri++ {
				row, ok, err := sc.Next()
				if err != nil {
					return violf("BlockRowScanner error on file %s block %d: %v", fi.Ptr, bi, err)
				}
				if !ok {
					if ri != len(rb.Rows) {
						return violf("BlockRowScanner yields %d rows, block %d of %s holds %d", ri, bi, fi.Ptr, len(rb.Rows))
					}
					break
				}
				if ri >= len(rb.Rows) || !bytes.Equal(row, rb.Rows[ri]) {
					return violf("BlockRowScanner row %d differs from the stored row (file %s block %d)", ri, fi.Ptr, bi)
				}
			}
			lf, err := bs.ReadDataBlockBloomFilters(bytes.NewReader(raw), bm)
			if err != nil {
				return violf("ReadDataBlockBloomFilters fails on file %s block %d: %v", fi.Ptr, bi, err)
			}
			if d := sameFilters(lf, rb.Filters); d != "" {
				return violf("file %s block %d: %s", fi.Ptr, bi, d)
			}
			// rows are the model's rows
			var blockRows []*StoredRow
			decidable := true
			allExt := true
			for _, r := range rb.Rows {
				id := idOfRowJSON(r)
				sr := w.Rows[id]
				if sr == nil {
					return violf("file %s block %d holds a row that was never ingested: %s", fi.Ptr, bi, r)
				}
				if !bytes.Equal(sr.JSON, r) {
					return violf("file %s block %d: stored bytes of row id %d differ from json.Marshal of the ingested row:\nstored  %s\nmarshal %s", fi.Ptr, bi, id, r, sr.JSON)
				}
				seen[id]++
				blockRows = append(blockRows, sr)
				if sr.Unknown {
					decidable = false
				}
				if !sr.Ext {
					allExt = false
				}
			}
			fileRows = append(fileRows, blockRows...)
			if !decidable {
				fileDecidable = false
			}
			if decidable && !allExt && rb.Filters != nil {
				want := blockDistinctCounts(blockRows)
				if bm.BloomEntryCounts != want {
					return violf("file %s block %d records BloomEntryCounts %+v but its rows hold %+v distinct entries (fields, tokens, field::token keys)", fi.Ptr, bi, bm.BloomEntryCounts, want)
				}
			}
		}
		// (a file-level section whose presence flags are all clear means "no
		// file-level filters": nothing was measured for it)
		hasFileFilters := rf.FileFilters != nil && (rf.FileFilters.Field != nil || rf.FileFilters.Token != nil || rf.FileFilters.FieldToken != nil)
		if fileDecidable && hasFileFilters && len(fileRows) > 0 {
			want := blockDistinctCounts(fileRows)
			if rf.Meta.BloomEntryCounts != want {
				return violf("file %s records file-level BloomEntryCounts %+v but its rows hold %+v distinct entries", fi.Ptr, rf.Meta.BloomEntryCounts, want)
			}
		}
		if _, isMergeOut := mo[fi.Ptr]; isMergeOut {
			Ev.Class("file:merge-output")
		}
		if len(rf.Blocks) >= 2 {
			Ev.Class("file:blocks>=2")
			Ev.NonTrivial(hashStrings(string(rf.MetaJSON)))
			if Ev.WantSample() {
				Ev.Sample(map[string]any{"file": fi.Ptr, "size": len(raw), "blocks": len(rf.Blocks), "metadata": rf.Meta})
			}
		}
		for _, rb := range rf.Blocks {
			Ev.Class("block:compression=" + normComp(rb.Meta.Compression))
		}
	}
	// every nil-acked row is stored exactly once across the referenced files
	for id, r := range w.Rows {
		if r.Acked && seen[id] != 1 {
			return violf("acknowledged row id %d is stored %d times in the referenced files", id, seen[id])
		}
		if !r.Acked && seen[id] != 0 {
			return violf("row id %d was answered with an error (%s) but is stored", id, r.AckErr)
		}
	}
	return nil
}

func judgeC18(w *World, files []*FileInfo) *Violation {
	mo := mergeOutputs(w)
	ctx := context.Background()
	for _, fi := range files {
		Ev.Eval(1)
		raw, err := readAllFile(w.Data, fi.Ptr)
		if err != nil {
			return violf("referenced file %s cannot be read: %v", fi.Ptr, err)
		}
		lm, _, err := bs.ReadFileMetadata(bytes.NewReader(raw))
		if err != nil {
			return violf("ReadFileMetadata fails on %s: %v", fi.Ptr, err)
		}
		r, err := w.Data.OpenFile(ctx, []byte(fi.Ptr))
		if err != nil {
			return violf("open %s: %v", fi.Ptr, err)
		}
		for bi, b := range fi.Blocks {
			bf, err := bs.ReadDataBlockBloomFilters(r, b.Meta)
			if err != nil {
				r.Close()
				return violf("ReadDataBlockBloomFilters fails on %s block %d: %v", fi.Ptr, bi, err)
			}
			wantKeys := map[string]bool{}
			anyExt := false
			for _, id := range b.IDs {
				sr := w.Rows[id]
				if sr == nil {
					continue
				}
				if sr.Ext {
					anyExt = true
				}
				// partition
				if b.Meta.PartitionID != sr.Part {
					r.Close()
					return violf("row id %d has partition %q (partition function at ingest) but sits in a block of partition %q (file %s)", id, sr.Part, b.Meta.PartitionID, fi.Ptr)
				}
				// minmax
				for k, e := range sr.Facts.Nums {
					wantKeys[k] = true
					mv, _ := getMember(sr.Val, k)
					lo, hi, _ := refFloorCeil(mv)
					rng, has := b.Meta.MinMaxIndexes[k]
					if !has {
						r.Close()
						return violf("row id %d has indexed value %s=%s but its block (file %s offset %d) has no minmax entry for %q (has %v)", id, k, valString(mv), fi.Ptr, b.Meta.RowDataOffset, k, b.Meta.MinMaxIndexes)
					}
					if rng.Min > lo || rng.Max < hi {
						r.Close()
						return violf("row id %d has %s=%s (floor/ceil [%d,%d]) outside its block's range [%d,%d] (file %s offset %d)", id, k, valString(mv), lo, hi, rng.Min, rng.Max, fi.Ptr, b.Meta.RowDataOffset)
					}
					_ = e
				}
				if sr.Unknown {
					continue
				}
				// bloom coverage at block and file level
				for _, lvl := range []struct {
					name string
					f    bs.BloomFilters
				}{{"block", *bf}, {"file", lm.BloomFilters}} {
					if f := lvl.f.FieldBloomFilter; f != nil {
						for p := range sr.Sem.E.Paths {
							if !f.TestString(p) {
								r.Close()
								return violf("%s-level field filter of %s (block offset %d) does not contain path %q of row id %d: %s", lvl.name, fi.Ptr, b.Meta.RowDataOffset, p, id, sr.JSON)
							}
						}
					}
					if f := lvl.f.TokenBloomFilter; f != nil {
						for tk := range sr.Sem.Tokens {
							if !f.TestString(tk) {
								r.Close()
								return violf("%s-level token filter of %s (block offset %d) does not contain token %q of row id %d: %s", lvl.name, fi.Ptr, b.Meta.RowDataOffset, tk, id, sr.JSON)
							}
						}
					}
					if f := lvl.f.FieldTokenBloomFilter; f != nil {
						for ft := range sr.Sem.FT {
							if !f.TestString(ft[0] + "::" + ft[1]) {
								r.Close()
								return violf("%s-level field:token filter of %s (block offset %d) does not contain %q::%q of row id %d: %s", lvl.name, fi.Ptr, b.Meta.RowDataOffset, ft[0], ft[1], id, sr.JSON)
							}
						}
					}
				}
			}
			if !anyExt {
				for k := range b.Meta.MinMaxIndexes {
					if !wantKeys[k] {
						r.Close()
						return violf("block (file %s offset %d) lists minmax key %q although none of its rows provided an indexable value for it (rows %v)", fi.Ptr, b.Meta.RowDataOffset, k, b.IDs)
					}
				}
			}
			if len(b.Meta.MinMaxIndexes) > 0 {
				Ev.Class("block:has-minmax")
			}
			if b.Meta.PartitionID != "" {
				Ev.Class("block:has-partition")
			}
		}
		r.Close()
		if sh, ok := mo[fi.Ptr]; ok {
			Ev.Class("file:merge-output")
			if sh.copiedAndMerged {
				Ev.Class("file:merge-output-with-copied-and-combined-blocks")
			}
		}
		if len(fi.Blocks) >= 2 {
			Ev.NonTrivial(hashStrings(jsonKey(fi.Meta.DataBlocks)))
			if Ev.WantSample() {
				Ev.Sample(map[string]any{"file": fi.Ptr, "blocks": len(fi.Blocks), "datablocks": fi.Meta.DataBlocks})
			}
		}
	}
	return nil
}

func runFileProperty(judge func(*World, []*FileInfo) *Violation) func(FileCase) *Violation {
	return func(c FileCase) *Violation {
		w, err := RunHistory(c.Hist)
		if err != nil {
			return violf("history failed on healthy stores: %v", err)
		}
		defer w.Close()
		files, err := ReadWorld(w.Data, w.Meta)
		if err != nil {
			return violf("stored files cannot be read back through the public helpers: %v", err)
		}
		Ev.Class("case:tokenizer=" + c.Hist.Cfg.Tokenizer)
		Ev.Class("case:stores=" + c.Hist.Meta + "/" + c.Hist.Data)
		if len(w.MergeLog) > 0 {
			Ev.Class("case:has-merge")
		}
		if w.FaultsFired > 0 {
			Ev.Class("case:history-fault-fired")
		}
		if w.MergeRetried > 0 {
			Ev.Class("case:merge-failed-then-succeeded-on-the-same-engine")
		}
		if w.ConcMerges > 0 {
			Ev.Class("case:merge-ran-while-the-caller-ingested-and-flushed")
		}
		return judge(w, files)
	}
}

func TestC17(t *testing.T) {
	Ev.Rule = "files left by generated histories (flush, limit-triggered flush, restart with another configuration, merge, external writer; mem and filesystem stores); faulted phase: the same histories with 1-3 one-shot CreateFile/Write/Close/Update/OpenFile/Read failures inside (failed flushes and merges between successful ones on the same engine; a merge that failed is retried at once on the same engine); concurrent phase: the tail of ingest+flush steps is carried out while Merge runs on another goroutine, store writes slowed to 0.3-4 ms so both writers overlap; shapes phase: thousands of identical or near-identical rows per block (zstd ratios in the thousands), a row of up to 1.5 MB, hundreds of empty rows, 1-4 flushes and a merge). Oracle: an independent reader written from FILE_FORMAT.md (footer framing, metadata CRC, contiguity from offset 0, region directly behind the row data with sections in block order, per-block CRC32C / compression / decompressed length / row count, distinct entry counts recomputed by the harness's own walker and tokenizers) and agreement of ReadFileMetadata / ReadDataBlockRowData / NewBlockRowScanner / ReadDataBlockBloomFilters and of the MetaStore's metadata with it; stored bytes equal the harness's own json.Marshal of each ingested row. Non-trivial: file with >=2 blocks; distinct by hash of its metadata JSON."
	Ev.Assumptions = []string{"entry counts are compared only for blocks whose rows the oracle can decide", "external-writer blocks follow FILE_FORMAT.md but may omit hashes/filters (layout checked non-strictly when a history contains external files)"}
	runChecks(t, "files", 300, 10000, genFileCase(), runFileProperty(judgeC17))
	runChecks(t, "faulted", 150, 5000, genFileCaseFaulted(), runFileProperty(judgeC17))
	runChecks(t, "shapes", 30, 800, genFileCaseShapes(), runFileProperty(judgeC17))
	runChecks(t, "concurrent", 60, 2500, genFileCaseConcurrent(), runFileProperty(judgeC17))
}

func TestC18(t *testing.T) {
	Ev.Rule = "same generated files as C17. Oracle: for every stored row the oracle can decide, the block's and the file's filters (as returned by ReadDataBlockBloomFilters / ReadFileMetadata) test positive for every path, token and path::token entry the independent walker+tokenizer emits; block minmax ranges cover each row's indexed values (math/big floor/ceil) and list exactly the keys some row provided; block partition id equals the partition function's value recorded at ingest. Non-trivial: file with >=2 blocks; distinct by hash of its block metadata."
	Ev.Assumptions = []string{"an absent filter (external-writer files) imposes nothing", "a bloom filter can hide a missing entry behind a false positive; half the cases use FPR <= 1e-6"}
	runChecks(t, "files", 300, 10000, genFileCase(), runFileProperty(judgeC18))
	runChecks(t, "faulted", 150, 5000, genFileCaseFaulted(), runFileProperty(judgeC18))
	runChecks(t, "shapes", 30, 800, genFileCaseShapes(), runFileProperty(judgeC18))
	runChecks(t, "concurrent", 60, 2500, genFileCaseConcurrent(), runFileProperty(judgeC18))
}

var _ = io.EOF

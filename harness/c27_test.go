package harness

// C27 — the engine is silent by default.

import (
	"bytes"
	"context"
	"encoding/json"
	"fmt"
	"os"
	"os/exec"
	"path/filepath"
	"sync"
	"testing"
	"time"

	"pgregory.net/rapid"
)

func genC27() *rapid.Generator[C27Scenario] {
	return rapid.Custom(func(t *rapid.T) C27Scenario {
		s := C27Scenario{Comp: pick(t, "comp", []string{"snappy", "none", "zstd"})}
		s.Store = pick(t, "store", []string{"", "", "", "fs", "fs", "fsdata"})
		s.QueryConc = pick(t, "queryconc", []int{0, 0, 1, 2})
		n := rapid.IntRange(2, 9).Draw(t, "nops")
		bulk := false
		for i := 0; i < n; i++ {
			switch unif(t, "op", 22) {
			case 20, 21:
				if !bulk {
					bulk = true
					s.Ops = append(s.Ops, C27Op{Op: "bulk", Rows: pick(t, "bulkfiles", []int{8, 24, 40})})
					continue
				}
				s.Ops = append(s.Ops, C27Op{Op: "query", Query: pick(t, "bq", []string{"field", "all", "token"}), End: pick(t, "bqend", []string{"close1", "cancel1", "closenow"})})
			case 0, 1, 2, 3, 4:
				s.Ops = append(s.Ops, C27Op{Op: "ingest", Rows: rapid.IntRange(1, 4).Draw(t, "rows")})
			case 5, 6:
				s.Ops = append(s.Ops, C27Op{Op: "ext", Rows: rapid.IntRange(1, 3).Draw(t, "rows"), NoFilter: rapid.Bool().Draw(t, "nofilter"), Absent: unif(t, "absent", 4)})
			case 7, 8, 9, 10, 11:
				s.Ops = append(s.Ops, C27Op{Op: "query", Query: pick(t, "q", []string{"token", "fieldtoken", "field", "all"}), End: pick(t, "qend", []string{"", "", "", "close1", "cancel1", "closenow"})})
			case 12, 13, 14:
				s.Ops = append(s.Ops, C27Op{Op: "merge"})
			case 15, 16:
				s.Ops = append(s.Ops, C27Op{Op: "corrupt", File: unif(t, "file", 4), Where: pick(t, "where", []string{"", "", "late", "late", "mid", "tail", "truncate"})})
			case 17:
				s.Ops = append(s.Ops, C27Op{Op: "stopwedged"})
			default:
				s.Ops = append(s.Ops, C27Op{Op: "flush"})
			}
		}
		mergeIdx := -1
		if chance(t, "mergeable", 40) {
			// two flushed files first and a Merge after them: the merge has a group
			// to commit, so faults aimed at it reach the commit / cleanup paths
			s.Ops = append([]C27Op{{Op: "ingest", Rows: 2}, {Op: "ingest", Rows: 1}}, s.Ops...)
			at := 2 + unif(t, "mergeat", len(s.Ops)-1)
			s.Ops = append(s.Ops[:at], append([]C27Op{{Op: "merge"}}, s.Ops[at:]...)...)
			mergeIdx = at
		}
		for i := rapid.IntRange(0, 3).Draw(t, "nfaults"); i > 0; i-- {
			f := C27Fault{Kind: pick(t, "fk", []string{"CreateFile", "Write", "Close", "Update", "Tombstone", "OpenFile", "Read", "RClose", "Seek", "IterYield", "Tombstone", "RClose"}), N: rapid.IntRange(0, 5).Draw(t, "fn"), Op: -1}
			if chance(t, "perop", 70) {
				// aim the fault at one operation, with a call kind that operation makes
				f.Op = unif(t, "fop", len(s.Ops))
				f.N = rapid.IntRange(0, 3).Draw(t, "fn2")
				switch s.Ops[f.Op].Op {
				case "merge":
					f.Kind = pick(t, "fkm", []string{"Tombstone", "Tombstone", "Tombstone", "Update", "CreateFile", "Write", "Close", "OpenFile", "Read", "RClose", "IterYield"})
				case "ingest", "flush", "stopwedged", "bulk":
					f.Kind = pick(t, "fki", []string{"CreateFile", "Write", "Close", "Update", "Tombstone"})
				case "query":
					f.Kind = pick(t, "fkq", []string{"IterYield", "OpenFile", "Read", "Seek", "RClose"})
				}
			}
			s.Faults = append(s.Faults, f)
		}
		if chance(t, "doublefault", 45) {
			// a failure and the failure of the cleanup it provokes, inside one
			// operation: a merge whose commit fails and whose orphaned output
			// cannot be tombstoned, a flush whose Close fails and whose abort /
			// tombstone fails too
			var ops []int
			for i, o := range s.Ops {
				if o.Op == "merge" || o.Op == "ingest" || o.Op == "flush" {
					ops = append(ops, i)
				}
			}
			if len(ops) > 0 {
				at := ops[unif(t, "dfop", len(ops))]
				if mergeIdx >= 0 && chance(t, "dfmerge", 70) {
					at = mergeIdx // the Merge that certainly has a group to commit
				}
				first := pick(t, "dffirst", []string{"Update", "Update", "Close", "Write", "CreateFile"})
				n := 0
				if first == "CreateFile" || first == "Close" {
					n = unif(t, "dfn", 2)
				}
				second := C27Fault{Kind: pick(t, "dfsecond", []string{"Tombstone", "Tombstone", "Abort"}), N: unif(t, "dfn2", 2), Op: at}
				if at == mergeIdx && chance(t, "dfcommit", 50) {
					// the merge commit is refused and so is the tombstone of its orphaned output
					first, n, second = "Update", 0, C27Fault{Kind: "Tombstone", N: 0, Op: at}
				}
				s.Faults = append(s.Faults, C27Fault{Kind: first, N: n, Op: at}, second)
			}
		}
		return s
	})
}

var (
	c27BuildOnce sync.Once
	c27Bin       string
	c27BuildErr  error
)

func c27Child() (string, error) {
	c27BuildOnce.Do(func() {
		dir := filepath.Join(verifDir, ".build")
		os.MkdirAll(dir, 0o755)
		c27Bin = filepath.Join(dir, fmt.Sprintf("c27child.%d", os.Getpid()))
		cmd := exec.Command("go", "build", "-tags", "verif", "-o", c27Bin, "./cmd/c27child")
		cmd.Env = append(os.Environ(), "GOFLAGS=-mod=mod", "GOPROXY=off")
		if out, err := cmd.CombinedOutput(); err != nil {
			c27BuildErr = fmt.Errorf("building the child program failed: %v\n%s", err, out)
		}
	})
	return c27Bin, c27BuildErr
}

func runC27Child(bin string, s C27Scenario, mode string) (stdout, stderr []byte, out C27Outcome, err error) {
	dir, err := os.MkdirTemp("", "verif-c27-")
	if err != nil {
		return nil, nil, out, err
	}
	defer os.RemoveAll(dir)
	sp, rp := filepath.Join(dir, "scenario.json"), filepath.Join(dir, "result.json")
	b, _ := json.Marshal(s)
	if err := os.WriteFile(sp, b, 0o600); err != nil {
		return nil, nil, out, err
	}
	cctx, cancel := context.WithTimeout(context.Background(), 3*time.Minute)
	defer cancel()
	cmd := exec.CommandContext(cctx, bin, sp, rp, mode)
	var so, se bytes.Buffer
	cmd.Stdout, cmd.Stderr = &so, &se
	runErr := cmd.Run()
	if rb, rerr := os.ReadFile(rp); rerr == nil {
		json.Unmarshal(rb, &out)
	}
	return so.Bytes(), se.Bytes(), out, runErr
}

func runC27(s C27Scenario) *Violation {
	Ev.Eval(1)
	bin, err := c27Child()
	if err != nil {
		infra("%v", err)
		return nil
	}
	so, se, out, runErr := runC27Child(bin, s, "silent")
	if len(so) > 0 || len(se) > 0 {
		return violf("with no Logger configured the engine (child process) wrote %d byte(s) to stdout and %d byte(s) to stderr:\nstdout: %q\nstderr: %q", len(so), len(se), trunc(so, 600), trunc(se, 1200))
	}
	if runErr != nil || !out.Completed {
		// silent, so not a C27 verdict: the scenario itself did not run to its end
		infra("the child process running a scenario failed without output: err=%v outcome=%+v scenario=%s", runErr, out, jsonKey(s))
		return nil
	}
	// twin run with a counting logger: were logging call sites reached?
	_, _, logged, _ := runC27Child(bin, s, "logged")
	if logged.Warns > 0 {
		Ev.Class("twin-run-logged-warnings")
		Ev.NonTrivial(jsonKey(s))
		for _, m := range logged.Messages {
			Ev.Class("warn-site: " + m)
		}
		if Ev.WantSample() {
			Ev.Sample(map[string]any{"scenario": s, "warn_records_in_twin_run": logged.Warns, "messages": logged.Messages})
		}
	}
	if logged.Records > 0 {
		Ev.Class("twin-run-logged-anything")
	}
	for _, p := range logged.Paths {
		Ev.Class("path: " + p)
	}
	if logged.Warns == 0 && len(logged.Paths) > 0 {
		Ev.NonTrivial(jsonKey(s))
	}
	return nil
}

func trunc(b []byte, n int) string {
	if len(b) > n {
		return string(b[:n]) + "..."
	}
	return string(b)
}

func TestC27(t *testing.T) {
	defer func() {
		if c27Bin != "" {
			os.Remove(c27Bin)
		}
	}()
	Ev.Rule = "case = scenario of 2-9 operations, 40% of them prefixed by two flushed ingests with a Merge inserted after them (ingest+flush, external-writer files without filter sections / with individual filters absent, bloom / match-all queries, Merge, damage to a stored file (a bit in the row data, in the metadata / file-level filters with the footer tail intact, in the middle, in the last byte, or truncation), a burst of 8-40 small flushed files, queries drained or ended early (Close after the first row, cancel after the first row, Close at once) under MaxQueryConcurrency 1 / 2 / 4, in-memory stores or FileSystemDataStore as DataStore (and MetaStore), a Stop with a 60 ms deadline against a pipeline wedged by an abandoned unbuffered done channel) with 0-3 one-shot store failures (CreateFile, Write, Close, Update, TombstoneFile, OpenFile, Read, Seek, reader Close, iterator), each either the N-th call of its kind in the run or the N-th call of its kind during one chosen operation (so that e.g. the tombstone after a committed merge is a likely target). Each scenario is executed by a plain child program (no test framework) whose stdout and stderr are pipes owned by the parent: both must be empty, byte for byte, with BloomSearchEngineConfig.Logger == nil. The same scenario is run a second time in the child with a counting slog.Logger. Non-trivial: the twin run logged >= 1 record at Warn level (the silent run passed through logging call sites that matter) or went through a failure path (an injected fault fired, an operation returned an error, an acknowledgement carried an error); distinct by scenario. Classes name the Warn messages and failure paths reached."
	Ev.Assumptions = []string{"anything written by the library's dependencies to the process's stdout/stderr counts too"}
	runChecks(t, "scenarios", 240, 6000, genC27(), runC27)
}

package harness

// Directed schedules for the window between the engine's "stopped" check and
// its enqueue (C05 "batches racing with Stop", C08 "refuses new work / nil only
// after every accepted batch has been answered"). The harness owns that window
// through the caller's Context: IngestRows and Flush evaluate ctx.Done() after
// the stopped check and before the channel send, so a Context whose Done() call
// parks holds a caller exactly there while Stop is started, and releases it
// before, during or after Stop's shutdown work. "Any context implementation" is
// part of C08's quantifier.

import (
	"context"
	"errors"
	"sync"
	"time"

	bs "github.com/danthegoodman1/bloomsearch"
	"pgregory.net/rapid"
)

type raceCaller struct {
	Op      string `json:"op"`      // ingest, flush
	Chan    string `json:"chan"`    // buf, unbuf
	Release string `json:"release"` // before (Stop is called), during (DelayUs after Stop was called), late (when Stop returned, or 30ms)
	DelayUs int    `json:"delay_us,omitempty"`
}

type stopRaceCase struct {
	IngestBuf int          `json:"ingestbuf"`
	Start     string       `json:"start"` // first, never
	Pre       int          `json:"pre"`
	Callers   []raceCaller `json:"callers"`
	Procs     int          `json:"procs,omitempty"`
}

func genStopRace() *rapid.Generator[stopRaceCase] {
	return rapid.Custom(func(t *rapid.T) stopRaceCase {
		c := stopRaceCase{IngestBuf: pick(t, "ingestbuf", []int{1, 2, 8, 1000}), Start: pick(t, "start", []string{"first", "first", "never"}),
			Pre: rapid.IntRange(0, 3).Draw(t, "pre"), Procs: pick(t, "procs", []int{0, 1, 2, 4})}
		n := rapid.IntRange(1, 5).Draw(t, "ncallers")
		for i := 0; i < n; i++ {
			rc := raceCaller{Op: pick(t, "op", []string{"ingest", "ingest", "ingest", "flush"}), Chan: pick(t, "chan", []string{"buf", "buf", "unbuf"}),
				Release: pick(t, "rel", []string{"late", "during", "late", "before"})}
			if rc.Release == "during" {
				rc.DelayUs = pick(t, "delay", []int{0, 50, 300, 2000})
			}
			c.Callers = append(c.Callers, rc)
		}
		return c
	})
}

func runStopRace(c stopRaceCase) *Violation {
	Ev.Eval(1)
	if c.Procs > 0 {
		prev := setProcs(c.Procs)
		defer setProcs(prev)
	}
	ds := NewMemDataStore(false)
	ms := bs.NewMemoryMetaStore()
	tr := NewTrace(ds, ms)
	cfg := EngCfg{Tokenizer: "default", Compression: "none", FPR: 0.01, RGRows: 10000, RGBytes: 10 << 20, BufRows: 1000, BufBytes: 1 << 20,
		IngestBuf: c.IngestBuf, QueryConc: 4, Partition: "none", MaxFileSize: 10 << 30, MaxMerge: 10}
	eng, err := bs.NewBloomSearchEngine(cfg.Build(), tr, tr)
	if err != nil {
		return violf("config rejected: %v", err)
	}
	book := NewAckBook(tr.tick)
	defer book.StopReceivers()
	bg := context.Background()
	if c.Start == "first" {
		eng.Start()
	}
	for i := 0; i < c.Pre && i < c.IngestBuf; i++ {
		b := book.NewBatch("good", "buf", 2, 1)
		ctx, cancel := context.WithTimeout(bg, 2*time.Second)
		err := eng.IngestRows(ctx, b.Rows, b.Ch)
		cancel()
		b.mu.Lock()
		b.CallErr, b.Accepted = err, err == nil
		b.mu.Unlock()
	}

	type callRec struct {
		spec     raceCaller
		ctx      *slowDoneCtx
		batch    *WBatch
		err      error
		returned bool
	}
	var mu sync.Mutex
	recs := make([]*callRec, len(c.Callers))
	var wg sync.WaitGroup
	for i, rc := range c.Callers {
		r := &callRec{spec: rc, ctx: newSlowDoneCtx()}
		if rc.Op == "ingest" {
			r.batch = book.NewBatch("good", rc.Chan, 2, 1)
		}
		recs[i] = r
		wg.Add(1)
		go func(r *callRec) {
			defer wg.Done()
			var err error
			if r.spec.Op == "ingest" {
				err = eng.IngestRows(r.ctx, r.batch.Rows, r.batch.Ch)
				r.batch.mu.Lock()
				r.batch.CallErr, r.batch.Accepted = err, err == nil
				r.batch.mu.Unlock()
			} else {
				err = eng.Flush(r.ctx)
			}
			mu.Lock()
			r.err, r.returned = err, true
			mu.Unlock()
		}(r)
	}
	releaseAll := func() {
		for _, r := range recs {
			r.ctx.Release()
		}
	}
	defer releaseAll()
	// every caller is now between the stopped check and the send (or was refused
	// before it got there, which cannot happen before Stop is called)
	for _, r := range recs {
		select {
		case <-r.ctx.Parked:
		case <-time.After(5 * time.Second):
			mu.Lock()
			ret, e := r.returned, r.err
			mu.Unlock()
			if ret {
				return violf("%s returned %v before Stop was ever called without consulting its context", r.spec.Op, e)
			}
			infra("stoprace: caller did not reach ctx.Done() within 5s")
			return nil
		}
	}
	for _, r := range recs {
		if r.spec.Release == "before" {
			r.ctx.Release()
		}
	}
	stopDone := make(chan error, 1)
	go func() {
		sctx, cancel := context.WithTimeout(bg, 20*time.Second)
		defer cancel()
		stopDone <- eng.Stop(sctx)
	}()
	for _, r := range recs {
		if r.spec.Release == "during" {
			go func(r *callRec) {
				time.Sleep(time.Duration(r.spec.DelayUs) * time.Microsecond)
				r.ctx.Release()
			}(r)
		}
	}
	var stopErr error
	stopReturnedWhileParked := false
	select {
	case stopErr = <-stopDone:
		stopReturnedWhileParked = true
		stopDone <- stopErr
	case <-time.After(30 * time.Millisecond):
	}
	releaseAll()
	select {
	case stopErr = <-stopDone:
	case <-time.After(25 * time.Second):
		return violf("Stop(20s deadline) did not return within 25s (callers parked between the stopped check and the send, all released)")
	}
	clientsDone := make(chan struct{})
	go func() { wg.Wait(); close(clientsDone) }()
	select {
	case <-clientsDone:
	case <-time.After(8 * time.Second):
		var stuck []string
		mu.Lock()
		for _, r := range recs {
			if !r.returned {
				stuck = append(stuck, r.spec.Op+"/"+r.spec.Release)
			}
		}
		mu.Unlock()
		return violf("callers still blocked 8s after Stop returned %v: %v never returned (a request that slipped in after the shutdown drain is answered with silence)", stopErr, stuck)
	}
	// work invoked after Stop returned is refused
	if err := eng.IngestRows(bg, []map[string]any{{"id": 999999}}, nil); !errors.Is(err, bs.ErrEngineStopped) {
		return violf("IngestRows invoked after Stop returned (%v) returned %v, want ErrEngineStopped", stopErr, err)
	}
	fctx, fcancel := context.WithTimeout(bg, 2*time.Second)
	ferr := eng.Flush(fctx)
	fcancel()
	if !errors.Is(ferr, bs.ErrEngineStopped) {
		return violf("Flush invoked after Stop returned (%v) returned %v, want ErrEngineStopped", stopErr, ferr)
	}
	if stopErr != nil {
		Ev.Class("stoprace:stop-not-graceful(no answer obligation)")
		return nil
	}
	time.Sleep(2 * time.Millisecond)
	book.Collect()
	check := func(final bool) *Violation {
		for _, b := range book.All() {
			b.mu.Lock()
			acc, cerr := b.Accepted, b.CallErr
			b.mu.Unlock()
			vals := b.values()
			if !acc {
				if len(vals) > 0 && cerr != nil {
					return violf("a batch whose IngestRows returned %v was answered %d time(s)", cerr, len(vals))
				}
				continue
			}
			if len(vals) == 0 && final {
				return violf("batch #%d: IngestRows returned nil (caller was held between the engine's stopped check and its send while Stop ran) but the done channel (%s) was never answered although Stop returned nil; case %s", b.N, b.ChanKind, shortJSON(c, 600))
			}
			if len(vals) > 1 {
				return violf("accepted batch #%d was answered %d times: %v", b.N, len(vals), vals)
			}
		}
		return nil
	}
	if v := check(false); v != nil {
		return v
	}
	time.Sleep(30 * time.Millisecond)
	book.Collect()
	if v := check(true); v != nil {
		return v
	}
	acceptedRacing, refusedRacing := 0, 0
	for _, r := range recs {
		if r.spec.Release == "before" {
			continue
		}
		if r.err == nil {
			acceptedRacing++
		} else if errors.Is(r.err, bs.ErrEngineStopped) {
			refusedRacing++
		}
	}
	if stopReturnedWhileParked {
		Ev.Class("stoprace:stop-returned-within-30ms")
	}
	if acceptedRacing > 0 {
		Ev.Class("stoprace:accepted-while-stop-pending")
	}
	if refusedRacing > 0 {
		Ev.Class("stoprace:refused-while-stop-pending")
	}
	if acceptedRacing+refusedRacing > 0 {
		Ev.NonTrivial("stoprace|" + jsonKey(c))
		if Ev.WantSample() {
			Ev.Sample(map[string]any{"stoprace": c})
		}
	}
	return nil
}

package harness

import "testing"

func c04EndToEnd(t *testing.T) {}

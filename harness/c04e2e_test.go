package harness

import "testing"

// c04EndToEnd: the same obligation through the engine. Histories of 3-8 small
// flushed files whose rows carry numbers of every kind under the indexed keys,
// merged (block ranges become hulls of three and more source ranges), then
// queries whose subject is the prefilter: every stored row whose own partition
// and exact values satisfy the tree (and the bloom/regex part, when present)
// must be returned.
func c04EndToEnd(t *testing.T) {
	runChecks(t, "e2e", 250, 6000, genSearchCase(minMaxOpts, 8, true), runSearchProperty(judgeC01))
}

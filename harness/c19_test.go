package harness

// C19 — corrupted or malformed files fail cleanly and never yield wrong rows.
// (a) byte-level mutations of engine-written files, targeted at the footer, the
// metadata JSON, the file-level filter section, the block filter region and the
// row data; (b) CRC-consistent metadata whose framing fields hold hostile
// values, re-framed with a correct CRC by the harness's own footer writer.

import (
	"bytes"
	"context"
	"encoding/binary"
	"encoding/json"
	"fmt"
	"hash/crc32"
	"math"
	"os"
	"path/filepath"
	"runtime"
	"sort"
	"testing"
	"time"

	bs "github.com/danthegoodman1/bloomsearch"
	"pgregory.net/rapid"
)

type MutOp struct {
	Op     string `json:"op"`     // flip, burst, trunc, extend, splice, zero
	Region string `json:"region"` // footer, meta, filefilter, region, rowdata, any
	Pos    int    `json:"pos"`    // per-mille position inside the region
	Len    int    `json:"len,omitempty"`
	Bit    int    `json:"bit,omitempty"`
	Fill   int    `json:"fill,omitempty"`
	From   int    `json:"from,omitempty"` // splice source, per-mille of file
}

type Hostile struct {
	Field string `json:"field"` // RegionOffset RegionSize FileFilterSize RowDataOffset RowDataSize BloomFilterOffset BloomFilterSize Rows UncompressedSize
	Block int    `json:"block"` // block index (mod number of blocks)
	Value string `json:"value"` // symbolic value, resolved against the file (see hostileValue)
}

type c19Case struct {
	Comp    string    `json:"comp"`
	Rows    []Val     `json:"rows"`
	Parts   int       `json:"parts"`
	Muts    []MutOp   `json:"muts,omitempty"`
	Hostile []Hostile `json:"hostile,omitempty"`
	Mode    string    `json:"mode"` // "helpers+fs", "metastore", "merge"
}

var hostileFields = []string{"RegionOffset", "RegionSize", "FileFilterSize", "RowDataOffset", "RowDataSize", "BloomFilterOffset", "BloomFilterSize"}
var hostileValues = []string{"-2^52", "-size", "2^48", "2^51", "-1", "0", "1", "cur-1", "cur+1", "size-1", "size", "size+1", "2^31", "2^31-1", "2^32", "2^40", "maxint64", "maxint64-cur", "maxint64-cur+1", "minint64", "-2^40", "cur*2", "region", "regionend", "metastart"}

func genC19() *rapid.Generator[c19Case] {
	return rapid.Custom(func(t *rapid.T) c19Case {
		c := c19Case{Comp: pick(t, "comp", []string{"snappy", "none", "zstd"}), Parts: pick(t, "parts", []int{1, 2, 3})}
		n := rapid.IntRange(1, 8).Draw(t, "nrows")
		spec := RowSpec{}
		for i := 0; i < n; i++ {
			c.Rows = append(c.Rows, drawRow(t, spec))
		}
		c.Mode = pick(t, "mode", []string{"helpers+fs", "metastore", "metastore", "merge", "postmerge"})
		if chance(t, "hostile", 45) {
			k := rapid.IntRange(1, 2).Draw(t, "nhostile")
			for i := 0; i < k; i++ {
				c.Hostile = append(c.Hostile, Hostile{Field: pick(t, "hfield", hostileFields), Block: unif(t, "hblock", 3), Value: pick(t, "hvalue", hostileValues)})
			}
			if chance(t, "widen", 35) {
				// two fields that only do harm together: a negative section size that
				// moves a derived limit past the end of the file, and an extent that
				// only that widened limit lets through
				c.Hostile = []Hostile{
					{Field: pick(t, "wfield", []string{"FileFilterSize", "FileFilterSize", "RegionSize", "BloomFilterSize"}), Block: unif(t, "wblock", 3), Value: pick(t, "wneg", []string{"-2^52", "-2^40", "-size", "-1", "minint64"})},
					{Field: pick(t, "wfield2", []string{"RegionOffset", "RowDataSize", "RowDataOffset", "BloomFilterOffset", "RegionSize"}), Block: unif(t, "wblock2", 3), Value: pick(t, "wbig", []string{"2^51", "2^48", "2^40", "2^32", "size+1", "cur*2"})},
				}
			}
			c.Mode = "helpers+fs" // hostile metadata is only meaningful where the file's own metadata is used
			return c
		}
		k := rapid.IntRange(1, 3).Draw(t, "nmuts")
		for i := 0; i < k; i++ {
			m := MutOp{Op: pick(t, "op", []string{"flip", "burst", "trunc", "extend", "splice", "zero", "flip", "flip"}),
				Region: pick(t, "region", []string{"rowdata", "region", "meta", "footer", "filefilter", "any"}),
				Pos:    rapid.IntRange(0, 999).Draw(t, "pos"), Len: rapid.IntRange(1, 64).Draw(t, "len"),
				Bit: unif(t, "bit", 8), Fill: rapid.IntRange(0, 255).Draw(t, "fill"), From: rapid.IntRange(0, 999).Draw(t, "from")}
			c.Muts = append(c.Muts, m)
		}
		return c
	})
}

type c19File struct {
	raw   []byte
	ref   *refFile
	meta  bs.FileMetadata
	ptr   string
	rows  map[string]int // written row JSON -> count
	order [][]byte
}

// buildValidFile writes the case's rows through a real engine (one flush).
func buildValidFile(c c19Case, ds *MemDataStore, ms bs.MetaStore, idBase int) (*c19File, *Violation) {
	cfg := bs.DefaultBloomSearchEngineConfig()
	cfg.MaxBufferedTime = time.Hour
	cfg.RowDataCompression = bs.CompressionType(c.Comp)
	cfg.BloomFalsePositiveRate = 0.01
	if c.Parts > 1 {
		np := c.Parts
		cfg.PartitionFunc = func(row map[string]any) string {
			id, _ := rowID(row)
			return fmt.Sprintf("p%d", id%np)
		}
	}
	eng, err := bs.NewBloomSearchEngine(cfg, ms, ds)
	if err != nil {
		return nil, violf("config rejected: %v", err)
	}
	eng.Start()
	ctx := context.Background()
	defer func() {
		sctx, cancel := context.WithTimeout(ctx, 30*time.Second)
		eng.Stop(sctx)
		cancel()
	}()
	f := &c19File{rows: map[string]int{}}
	var batch []map[string]any
	for i, r := range c.Rows {
		g := rowGo(withID(r, idBase+i))
		g["common"] = "zz"
		jb, err := json.Marshal(g)
		if err != nil {
			return nil, violf("row not marshalable: %v", err)
		}
		f.rows[string(jb)]++
		f.order = append(f.order, jb)
		batch = append(batch, g)
	}
	before := ds.Files()
	done := make(chan error, 1)
	if err := eng.IngestRows(ctx, batch, done); err != nil {
		return nil, violf("ingest: %v", err)
	}
	if err := eng.Flush(ctx); err != nil {
		return nil, violf("flush: %v", err)
	}
	if err := <-done; err != nil {
		return nil, violf("ack: %v", err)
	}
	for ptr, b := range ds.Files() {
		if _, old := before[ptr]; !old {
			f.ptr, f.raw = ptr, b
		}
	}
	if f.raw == nil {
		return nil, violf("flush produced no file")
	}
	rf, err := refReadFile(f.raw, true)
	if err != nil {
		return nil, violf("engine-written file does not parse: %v", err)
	}
	f.ref = rf
	for mf, err := range ms.GetMaybeFilesForQuery(ctx, nil) {
		if err == nil && string(mf.PointerBytes) == f.ptr {
			f.meta = mf.Metadata
		}
	}
	return f, nil
}

func (f *c19File) regionBounds(region string) (int, int) {
	n := len(f.raw)
	mlen := len(f.ref.MetaJSON)
	mstart := n - 20 - mlen
	ffstart := mstart - f.ref.Meta.FileFilterSectionSize
	ro := f.ref.Meta.BlockFilterRegionOffset
	switch region {
	case "footer":
		return n - 20, n
	case "meta":
		return mstart, mstart + mlen
	case "filefilter":
		return ffstart, mstart
	case "region":
		return ro, ro + f.ref.Meta.BlockFilterRegionSize
	case "rowdata":
		return 0, ro
	}
	return 0, n
}

func applyMuts(f *c19File, muts []MutOp) []byte {
	b := append([]byte(nil), f.raw...)
	for _, m := range muts {
		lo, hi := f.regionBounds(m.Region)
		if hi > len(b) {
			hi = len(b)
		}
		if lo >= hi {
			lo, hi = 0, len(b)
		}
		if len(b) == 0 {
			break
		}
		pos := lo + (hi-lo)*m.Pos/1000
		if pos >= len(b) {
			pos = len(b) - 1
		}
		switch m.Op {
		case "flip":
			b[pos] ^= 1 << uint(m.Bit)
		case "burst":
			for i := 0; i < m.Len && pos+i < len(b); i++ {
				b[pos+i] = byte(m.Fill + i*7)
			}
		case "zero":
			for i := 0; i < m.Len && pos+i < len(b); i++ {
				b[pos+i] = 0
			}
		case "trunc":
			b = b[:pos]
		case "extend":
			ext := bytes.Repeat([]byte{byte(m.Fill)}, m.Len)
			if m.Fill%2 == 0 {
				b = append(b, ext...)
			} else {
				b = append(b[:pos:pos], append(ext, b[pos:]...)...)
			}
		case "splice":
			from := len(b) * m.From / 1000
			for i := 0; i < m.Len && pos+i < len(b) && from+i < len(b); i++ {
				b[pos+i] = b[from+i]
			}
		}
	}
	return b
}

func hostileValue(sym string, cur, size, region, regionEnd, metaStart int) int {
	switch sym {
	case "-1":
		return -1
	case "0":
		return 0
	case "1":
		return 1
	case "cur-1":
		return cur - 1
	case "cur+1":
		return cur + 1
	case "size-1":
		return size - 1
	case "size":
		return size
	case "size+1":
		return size + 1
	case "2^31":
		return 1 << 31
	case "2^31-1":
		return 1<<31 - 1
	case "2^32":
		return 1 << 32
	case "2^40":
		return 1 << 40
	case "maxint64":
		return math.MaxInt64
	case "maxint64-cur":
		return math.MaxInt64 - cur
	case "maxint64-cur+1":
		return math.MaxInt64 - cur + 1
	case "minint64":
		return math.MinInt64
	case "-2^52":
		return -(1 << 52)
	case "-size":
		return -size
	case "2^48":
		return 1 << 48
	case "2^51":
		return 1 << 51
	case "-2^40":
		return -(1 << 40)
	case "cur*2":
		return cur * 2
	case "region":
		return region
	case "regionend":
		return regionEnd
	case "metastart":
		return metaStart
	}
	return cur
}

// hostileLiteral, when set (native fuzz target), overrides the symbolic value.
var hostileLiteral *int

// applyHostile rewrites framing fields and re-frames the footer with a correct CRC.
func applyHostile(f *c19File, hs []Hostile) ([]byte, string) {
	m := f.ref.Meta
	m.DataBlocks = append([]bs.DataBlockMetadata(nil), m.DataBlocks...)
	size := len(f.raw)
	mstart := size - 20 - len(f.ref.MetaJSON)
	desc := ""
	for _, h := range hs {
		bi := 0
		if len(m.DataBlocks) > 0 {
			bi = h.Block % len(m.DataBlocks)
		}
		var p *int
		switch h.Field {
		case "RegionOffset":
			p = &m.BlockFilterRegionOffset
		case "RegionSize":
			p = &m.BlockFilterRegionSize
		case "FileFilterSize":
			p = &m.FileFilterSectionSize
		case "RowDataOffset":
			p = &m.DataBlocks[bi].RowDataOffset
		case "RowDataSize":
			p = &m.DataBlocks[bi].RowDataSize
		case "BloomFilterOffset":
			p = &m.DataBlocks[bi].BloomFilterOffset
		case "BloomFilterSize":
			p = &m.DataBlocks[bi].BloomFilterSize
		case "Rows":
			p = &m.DataBlocks[bi].Rows
		case "UncompressedSize":
			p = &m.DataBlocks[bi].UncompressedSize
		}
		if p == nil {
			continue
		}
		nv := hostileValue(h.Value, *p, size, f.ref.Meta.BlockFilterRegionOffset, f.ref.Meta.BlockFilterRegionOffset+f.ref.Meta.BlockFilterRegionSize, mstart)
		if hostileLiteral != nil {
			nv = *hostileLiteral
		}
		desc += fmt.Sprintf("%s[block %d]: %d -> %d; ", h.Field, bi, *p, nv)
		*p = nv
	}
	mj, _ := json.Marshal(m)
	out := append([]byte(nil), f.raw[:mstart]...)
	out = append(out, mj...)
	var w [4]byte
	binary.LittleEndian.PutUint32(w[:], crc32.Checksum(mj, crcTable))
	out = append(out, w[:]...)
	binary.LittleEndian.PutUint32(w[:], uint32(len(mj)))
	out = append(out, w[:]...)
	binary.LittleEndian.PutUint32(w[:], 3)
	out = append(out, w[:]...)
	out = append(out, "BLOMSRCH"...)
	return out, desc
}

func allocDuring(fn func()) uint64 {
	var a, b runtime.MemStats
	runtime.ReadMemStats(&a)
	fn()
	runtime.ReadMemStats(&b)
	return b.TotalAlloc - a.TotalAlloc
}

// exerciseHelpers runs the public read helpers over the bytes; they must
// return errors or data, never panic, and never allocate far beyond the file.
func exerciseHelpers(b []byte, f *c19File, what string) *Violation {
	budget := uint64(16*len(b)) + 4<<20
	for _, bm := range f.ref.Meta.DataBlocks {
		budget += uint64(2 * bm.UncompressedSize)
	}
	var lm *bs.FileMetadata
	var err error
	var size int64
	if a := allocDuring(func() { lm, size, err = bs.ReadFileMetadata(bytes.NewReader(b)) }); a > budget {
		return violf("ReadFileMetadata allocated %d bytes for a %d-byte file (%s)", a, len(b), what)
	}
	if err != nil {
		Ev.Class("helpers:metadata-rejected")
		return nil
	}
	Ev.Class("helpers:metadata-accepted")
	if size != int64(len(b)) {
		return violf("ReadFileMetadata reports size %d for %d bytes", size, len(b))
	}
	// accepted metadata must be in bounds: everything it describes lies inside the file
	if lm.BlockFilterRegionOffset < 0 || lm.BlockFilterRegionSize < 0 || int64(lm.BlockFilterRegionOffset)+int64(lm.BlockFilterRegionSize) > int64(len(b)) || int64(lm.BlockFilterRegionOffset)+int64(lm.BlockFilterRegionSize) < 0 {
		return violf("ReadFileMetadata accepted a block filter region [%d,+%d) outside the %d-byte file (%s)", lm.BlockFilterRegionOffset, lm.BlockFilterRegionSize, len(b), what)
	}
	for i, bm := range lm.DataBlocks {
		end := int64(bm.RowDataOffset) + int64(bm.RowDataSize)
		if bm.RowDataOffset < 0 || bm.RowDataSize < 0 || end < 0 || end > int64(len(b)) {
			return violf("ReadFileMetadata accepted block %d with row data [%d,+%d) outside the %d-byte file (%s)", i, bm.RowDataOffset, bm.RowDataSize, len(b), what)
		}
		fend := int64(bm.BloomFilterOffset) + int64(bm.BloomFilterSize)
		if bm.BloomFilterSize < 0 || (bm.BloomFilterSize > 0 && (bm.BloomFilterOffset < 0 || fend < 0 || fend > int64(len(b)))) {
			return violf("ReadFileMetadata accepted block %d with filter section [%d,+%d) outside the %d-byte file (%s)", i, bm.BloomFilterOffset, bm.BloomFilterSize, len(b), what)
		}
		bmCopy := bm
		if a := allocDuring(func() { _, _ = bs.ReadDataBlockBloomFilters(bytes.NewReader(b), bmCopy) }); a > budget {
			return violf("ReadDataBlockBloomFilters allocated %d bytes for a %d-byte file (block %d; %s)", a, len(b), i, what)
		}
		var data []byte
		var rerr error
		if a := allocDuring(func() { data, rerr = bs.ReadDataBlockRowData(bytes.NewReader(b), &bmCopy) }); a > budget+uint64(2*maxInt(bm.UncompressedSize, 0)) && bm.UncompressedSize <= 64<<20 {
			return violf("ReadDataBlockRowData allocated %d bytes for a %d-byte file (block %d; %s)", a, len(b), i, what)
		}
		if rerr == nil {
			sc := bs.NewBlockRowScanner(data)
			for {
				row, ok, err := sc.Next()
				if err != nil || !ok {
					break
				}
				if bm.HasRowDataHash && f.rows[string(row)] == 0 {
					return violf("ReadDataBlockRowData + scanner yield a row that was never written (block %d carries a row-data hash; %s): %s", i, what, shortJSON(string(row), 300))
				}
			}
		}
	}
	return nil
}

type c19QueryOut struct {
	rows []map[string]any
	err  error
}

func c19Queries() []*bs.Query {
	return []*bs.Query{nil, bs.NewQuery().Token("zz").Build(), bs.NewQuery().Field("id").Build()}
}

func c19RunQuery(eng *bs.BloomSearchEngine, q *bs.Query) (c19QueryOut, *Violation) {
	res, err := eng.Query(context.Background(), q)
	if err != nil {
		return c19QueryOut{}, violf("valid query rejected: %v", err)
	}
	rows, rerr, ok := collectResults(res, 60*time.Second)
	res.Close()
	if !ok {
		return c19QueryOut{}, violf("query over a corrupted file did not finish within 60s")
	}
	return c19QueryOut{rows, rerr}, nil
}

func canonRow(m map[string]any) string {
	b, _ := json.Marshal(m)
	return string(b)
}

// checkRowsWritten: every returned row equals (after a JSON round trip) a row
// that was written, no more often than it was written.
func checkRowsWritten(out c19QueryOut, written map[string]int, what string) *Violation {
	canonWritten := map[string]int{}
	for js, n := range written {
		var m map[string]any
		if json.Unmarshal([]byte(js), &m) != nil {
			return nil // rows encoding/json cannot decode: cannot compare (rare; skip the case)
		}
		canonWritten[canonRow(m)] += n
	}
	seen := map[string]int{}
	for _, r := range out.rows {
		k := canonRow(r)
		seen[k]++
		if seen[k] > canonWritten[k] {
			return violf("query over corrupted data returned a row that was not written (or more often than written): %s (%s; query Err=%v)", shortJSON(r, 400), what, out.err)
		}
	}
	return nil
}

func runC19(c c19Case) *Violation {
	Ev.Eval(1)
	ds := NewMemDataStore(false)
	ms := bs.NewMemoryMetaStore()
	f, v := buildValidFile(c, ds, ms, 1)
	if v != nil {
		return v
	}
	var corrupt []byte
	what := ""
	if len(c.Hostile) > 0 {
		corrupt, what = applyHostile(f, c.Hostile)
		what = "hostile metadata: " + what
		Ev.Class("kind:hostile-metadata")
	} else {
		corrupt = applyMuts(f, c.Muts)
		what = "mutations: " + jsonKey(c.Muts)
		Ev.Class("kind:byte-mutation")
	}
	changed := !bytes.Equal(corrupt, f.raw)
	if !changed {
		Ev.Class("unchanged-bytes")
	}
	// did the mutation leave the footer valid / hit row data or a filter section?
	ferr := func() (err error) {
		// the independent reader is not hardened against hostile metadata; it
		// only classifies the case here, so a panic in it counts as "damage detected"
		defer func() {
			if r := recover(); r != nil {
				err = fmt.Errorf("independent reader: %v", r)
			}
		}()
		_, err = refReadFile(corrupt, true)
		return err
	}()
	footerOK := false
	if _, _, err := bs.ReadFileMetadata(bytes.NewReader(corrupt)); err == nil {
		footerOK = true
	}
	nontrivial := changed && (footerOK || ferr != nil)

	if v := exerciseHelpers(corrupt, f, what); v != nil {
		return v
	}
	switch c.Mode {
	case "helpers+fs":
		dir, err := os.MkdirTemp("", "verif-c19-")
		if err != nil {
			infra("tempdir: %v", err)
			return nil
		}
		defer os.RemoveAll(dir)
		if err := os.WriteFile(filepath.Join(dir, "bloom-1.dat"), corrupt, 0o600); err != nil {
			infra("write: %v", err)
			return nil
		}
		fs := bs.NewFileSystemDataStore(dir)
		eng, err := bs.NewBloomSearchEngine(bs.DefaultBloomSearchEngineConfig(), fs, fs)
		if err != nil {
			return violf("engine: %v", err)
		}
		for _, q := range c19Queries() {
			out, v := c19RunQuery(eng, q)
			if v != nil {
				return v
			}
			if v := checkRowsWritten(out, f.rows, what+" [filesystem store, metadata from the file]"); v != nil {
				return v
			}
		}
		Ev.Class("mode:fs-metadata-from-file")
	case "metastore":
		// the MetaStore keeps the ORIGINAL metadata; the DataStore holds the corrupted bytes
		ds.Put(f.ptr, corrupt)
		eng, err := bs.NewBloomSearchEngine(bs.DefaultBloomSearchEngineConfig(), ms, ds)
		if err != nil {
			return violf("engine: %v", err)
		}
		for qi, q := range c19Queries() {
			out, v := c19RunQuery(eng, q)
			if v != nil {
				return v
			}
			if v := checkRowsWritten(out, f.rows, what+" [metadata held by the MetaStore]"); v != nil {
				return v
			}
			if out.err == nil && len(out.rows) != len(f.order) {
				return violf("query %d over corrupted data (metadata held by the MetaStore) finished with Err=nil but returned %d of the %d written rows (%s)", qi, len(out.rows), len(f.order), what)
			}
			if out.err != nil {
				Ev.Class("metastore:query-reported-error")
			} else {
				Ev.Class("metastore:exact-answer")
			}
		}
		Ev.Class("mode:metastore-held-metadata")
	case "postmerge":
		// Merge two healthy files first (the second has one partition more, so one
		// of its blocks has no partner and is copied verbatim), THEN corrupt the
		// merge output: what a merge writes must be as well protected as a flush
		c2 := c
		c2.Parts = c.Parts + 1
		f2, v := buildValidFile(c2, ds, ms, 1000)
		if v != nil {
			return v
		}
		all := map[string]int{}
		for k, n := range f.rows {
			all[k] += n
		}
		for k, n := range f2.rows {
			all[k] += n
		}
		cfg := bs.DefaultBloomSearchEngineConfig()
		cfg.RowDataCompression = bs.CompressionType(c.Comp)
		meng, err := bs.NewBloomSearchEngine(cfg, ms, ds)
		if err != nil {
			return violf("engine: %v", err)
		}
		if _, err := meng.Merge(context.Background()); err != nil {
			return violf("merge of two healthy files failed: %v", err)
		}
		var merged *c19File
		for mf, err := range ms.GetMaybeFilesForQuery(context.Background(), nil) {
			if err != nil {
				continue
			}
			raw, ok := ds.Get(string(mf.PointerBytes))
			if !ok {
				continue
			}
			rf, err := refReadFile(raw, true)
			if err != nil {
				return violf("merge output does not parse: %v", err)
			}
			merged = &c19File{raw: raw, ref: rf, meta: mf.Metadata, ptr: string(mf.PointerBytes), rows: all}
		}
		if merged == nil || len(c.Muts) == 0 {
			break
		}
		mcorrupt := applyMuts(merged, c.Muts)
		if bytes.Equal(mcorrupt, merged.raw) {
			break
		}
		if v := exerciseHelpers(mcorrupt, merged, what+" [merge output]"); v != nil {
			return v
		}
		ds.Put(merged.ptr, mcorrupt)
		qeng, err := bs.NewBloomSearchEngine(bs.DefaultBloomSearchEngineConfig(), ms, ds)
		if err != nil {
			return violf("engine: %v", err)
		}
		for qi, q := range c19Queries() {
			out, v := c19RunQuery(qeng, q)
			if v != nil {
				return v
			}
			if v := checkRowsWritten(out, all, what+" [applied to the merge output; metadata held by the MetaStore]"); v != nil {
				return v
			}
			if out.err == nil && len(out.rows) != len(f.order)+len(f2.order) {
				return violf("query %d over a corrupted merge output finished with Err=nil but returned %d of the %d written rows (%s)", qi, len(out.rows), len(f.order)+len(f2.order), what)
			}
		}
		Ev.Class("mode:corrupted-merge-output")
	case "merge":
		// a second valid file, then Merge with the first one corrupted
		f2, v := buildValidFile(c, ds, ms, 1000)
		if v != nil {
			return v
		}
		ds.Put(f.ptr, corrupt)
		all := map[string]int{}
		for k, n := range f.rows {
			all[k] += n
		}
		for k, n := range f2.rows {
			all[k] += n
		}
		cfg := bs.DefaultBloomSearchEngineConfig()
		cfg.RowDataCompression = bs.CompressionType(c.Comp)
		eng, err := bs.NewBloomSearchEngine(cfg, ms, ds)
		if err != nil {
			return violf("engine: %v", err)
		}
		_, merr := eng.Merge(context.Background())
		if merr != nil {
			Ev.Class("merge:failed-cleanly")
		} else {
			Ev.Class("merge:committed")
		}
		for qi, q := range c19Queries() {
			out, v := c19RunQuery(eng, q)
			if v != nil {
				return v
			}
			if v := checkRowsWritten(out, all, what+" [after Merge over a corrupted source]"); v != nil {
				return v
			}
			if out.err == nil && len(out.rows) != len(f.order)+len(f2.order) {
				return violf("after Merge (err=%v) over a corrupted source, query %d finished with Err=nil but returned %d of the %d written rows (%s)", merr, qi, len(out.rows), len(f.order)+len(f2.order), what)
			}
		}
		Ev.Class("mode:merge-over-corrupted-source")
	}
	if nontrivial {
		Ev.NonTrivial(hashStrings(what, c.Comp, fmt.Sprint(len(f.raw)), c.Mode))
		if Ev.WantSample() {
			Ev.Sample(map[string]any{"what": what, "mode": c.Mode, "file_size": len(f.raw), "footer_still_valid": footerOK, "comp": c.Comp})
		}
	}
	return nil
}

func TestC19(t *testing.T) {
	Ev.Rule = "case = engine-written file (1-8 generated rows, 1-3 blocks, none/snappy/zstd) + either 1-3 byte mutations (bit flip, burst, zero fill, truncation, extension, splice) targeted at footer / metadata JSON / file-level filter section / block filter region / row data, or 1-2 framing fields (region offset/size, file filter size, block row-data offset/size, filter offset/size) set to hostile values (-1, 0, +-1 around the current value and the file size, 2^31, 2^32, 2^40, MaxInt64, MaxInt64-cur(+1), MinInt64) and re-framed with a correct CRC by the harness's own footer writer. Oracle: no panic; TotalAlloc of each helper call <= 16*fileSize + 4 MiB (+ declared uncompressed sizes); accepted metadata is in bounds; queries (corruption applied to the output of a merge that copied one block verbatim; filesystem store = metadata from the file; MemoryMetaStore holding the original metadata; after a Merge over the corrupted source) return only rows that were written, and with MetaStore-held metadata either the exact answer or a non-nil Err. metahostile phase: 2-4 healthy files, the MetaStore holding a hostile filter section extent (offset / size of one block's section) for one of them, queries on a budget of 1-8 workers: no panic, only written rows, exact answer or error. transplant phase: a block's row data replaced by a complete valid compressed stream of identical compressed and uncompressed size (byte-wise isomorphic rows written to a different store), in the MetaStore-held, filesystem and merge modes: never a row that was not written to this store, and exact answer or error. Non-trivial: the bytes changed and (the footer still parses, or the independent reader detects the damage in row data / a filter section); distinct by hash(mutation, compression, size, mode)."
	Ev.Assumptions = []string{"rows returned are compared with written rows through a JSON round trip", "allocation is measured with runtime.MemStats.TotalAlloc around single-goroutine helper calls"}
	runChecks(t, "corrupt", 3000, 150000, genC19(), runC19)
	runChecks(t, "transplant", 300, 10000, genC19Transplant(), runC19Transplant)
	runChecks(t, "metahostile", 500, 20000, genC19MetaHostile(), runC19MetaHostile)
}

var _ = sort.Ints
var _ = rapid.Bool

package harness

// Definitions shared by the library part of the harness (importable by the
// C27 child program) and the tests.

import (
	"encoding/json"
	"errors"
	"fmt"
	"sync"
	"sync/atomic"
)

// Violation is a property verdict on one case. Key, when non-empty, is the
// signature matched against KNOWN_FINDINGS.txt.
type Violation struct {
	Msg string
	Key string
}

func (v *Violation) Error() string { return v.Msg }

func violf(format string, args ...any) *Violation {
	return &Violation{Msg: fmt.Sprintf(format, args...)}
}

func violKey(key, format string, args ...any) *Violation {
	return &Violation{Msg: fmt.Sprintf(format, args...), Key: key}
}

var (
	infraFailed atomic.Bool
	infraMsgs   []string
	infraMu     sync.Mutex
)

// infra records a harness/infrastructure problem (never a property verdict).
func infra(format string, args ...any) {
	infraFailed.Store(true)
	infraMu.Lock()
	infraMsgs = append(infraMsgs, fmt.Sprintf(format, args...))
	infraMu.Unlock()
}

var errInjected = errors.New("injected store failure")

type blockID struct {
	File string
	Off  int
}

// jsonKey is a canonical-ish encoding used for distinctness hashing and messages.
func jsonKey(v any) string {
	b, err := json.Marshal(v)
	if err != nil {
		return fmt.Sprintf("%#v", v)
	}
	return string(b)
}

func maxInt(a, b int) int {
	if a > b {
		return a
	}
	return b
}

package harness

// C06, "deadline" phase — the truthfulness of acknowledgements across a Stop
// deadline, on the filesystem store used as both stores (a flush is published by
// its writer's Close; the MetaStore's Update comes after it). A ctx-honouring
// gate holds one store call of a flush while Stop's deadline expires, so that
// flush — and everything queued behind it — is aborted with a cancelled
// context. Whatever was acknowledged with an error must be absent from a fresh
// engine over the directory, whatever was acknowledged with nil must be there
// exactly once.

import (
	"context"
	"fmt"
	"time"

	bs "github.com/danthegoodman1/bloomsearch"
	"pgregory.net/rapid"
)

type c06DeadlineCase struct {
	BufRows    int    `json:"bufrows"`
	Batches    []int  `json:"batches"` // rows per batch
	GateKind   string `json:"gate_kind"`
	GateN      int    `json:"gate_n"`
	DeadlineMs int    `json:"deadline_ms"`
	Comp       string `json:"comp"`
}

func genC06Deadline() *rapid.Generator[c06DeadlineCase] {
	return rapid.Custom(func(t *rapid.T) c06DeadlineCase {
		c := c06DeadlineCase{BufRows: pick(t, "bufrows", []int{1, 2, 1000}), GateKind: pick(t, "gatekind", []string{"Update", "Update", "Close", "Write", "CreateFile", "Tombstone"}),
			GateN: unif(t, "gaten", 3), DeadlineMs: pick(t, "deadline", []int{60, 120}), Comp: pick(t, "comp", []string{"none", "snappy"})}
		for i := rapid.IntRange(2, 6).Draw(t, "nbatches"); i > 0; i-- {
			c.Batches = append(c.Batches, rapid.IntRange(1, 3).Draw(t, "rows"))
		}
		return c
	})
}

func runC06Deadline(c c06DeadlineCase) *Violation {
	Ev.Eval(1)
	ds, ms, _, _, cleanup, err := newStores("fs", "fs")
	if err != nil {
		infra("stores: %v", err)
		return nil
	}
	defer cleanup()
	tr := NewTrace(ds, ms)
	ctl := NewStoreCtl(StoreScript{Gates: []GateSpec{{Kind: c.GateKind, N: c.GateN, IgnoreCtx: false, Release: "manual"}}})
	tr.Before = ctl.Hook
	defer ctl.ReleaseAll()
	cfg := EngCfg{Tokenizer: "default", Compression: c.Comp, FPR: 0.01, RGRows: 10000, RGBytes: 10 << 20, BufRows: c.BufRows, BufBytes: 1 << 20,
		IngestBuf: 64, QueryConc: 4, Partition: "none", MaxFileSize: 10 << 30, MaxMerge: 10}
	eng, err := bs.NewBloomSearchEngine(cfg.Build(), tr, tr)
	if err != nil {
		return violf("config rejected: %v", err)
	}
	eng.Start()
	bg := context.Background()
	type batch struct {
		ids []int
		ch  chan error
		ack error
		got bool
	}
	var batches []*batch
	next := 0
	for _, n := range c.Batches {
		b := &batch{ch: make(chan error, 1)}
		var rows []map[string]any
		for i := 0; i < n; i++ {
			next++
			rows = append(rows, map[string]any{"id": next, "msg": fmt.Sprintf("row %d", next)})
			b.ids = append(b.ids, next)
		}
		ictx, cancel := context.WithTimeout(bg, 2*time.Second)
		err := eng.IngestRows(ictx, rows, b.ch)
		cancel()
		if err != nil {
			continue // not accepted: no obligation
		}
		batches = append(batches, b)
	}
	// let the flush pipeline reach the gate (or finish), then stop with a deadline
	select {
	case <-ctl.Entered[0]:
	case <-time.After(150 * time.Millisecond):
	}
	sctx, scancel := context.WithTimeout(bg, time.Duration(c.DeadlineMs)*time.Millisecond)
	serr := eng.Stop(sctx)
	scancel()
	ctl.ReleaseAll()
	time.Sleep(300 * time.Millisecond)
	nilAcks, errAcks := 0, 0
	for _, b := range batches {
		select {
		case b.ack = <-b.ch:
			b.got = true
			if b.ack == nil {
				nilAcks++
			} else {
				errAcks++
			}
		default:
		}
	}
	fresh, err := bs.NewBloomSearchEngine(cfg.Build(), ms, ds)
	if err != nil {
		return violf("config rejected: %v", err)
	}
	vis, verr := visibleIDs(fresh)
	if verr != nil {
		return violf("a fresh engine over the directory after Stop (err=%v): %v", serr, verr)
	}
	for bi, b := range batches {
		for _, id := range b.ids {
			n := vis[id]
			switch {
			case b.got && b.ack == nil && n != 1:
				return violf("batch %d was acknowledged with nil but its row id %d is visible %d times on a fresh engine over the directory (Stop returned %v; gate %s#%d)", bi, id, n, serr, c.GateKind, c.GateN)
			case b.got && b.ack != nil && n != 0:
				return violf("batch %d was answered with an error (%v) but its row id %d is visible %d times on a fresh engine over the directory (Stop returned %v; a ctx-honouring %s#%d was in progress when the deadline hit)", bi, b.ack, id, n, serr, c.GateKind, c.GateN)
			case n > 1:
				return violf("row id %d is visible %d times on a fresh engine over the directory", id, n)
			}
		}
	}
	if serr != nil {
		Ev.Class("deadline:stop-returned-deadline-error")
	}
	if serr != nil && errAcks > 0 {
		Ev.NonTrivial("deadline|" + jsonKey(c))
		if Ev.WantSample() {
			Ev.Sample(map[string]any{"deadline_case": c, "nil_acks": nilAcks, "error_acks": errAcks})
		}
	}
	return nil
}

package harness

// Go native (coverage-guided) fuzz targets, run by the driver in the thorough
// tier only (`go test -fuzz`); the seconds-long replay tier is `go test -run
// FuzzX/<file>` over saved inputs. The semantic oracle sits inside each target.

import (
	"bytes"
	"context"
	"encoding/json"
	"fmt"
	"os"
	"path/filepath"
	"strings"
	"sync"
	"testing"
	"time"

	bs "github.com/danthegoodman1/bloomsearch"
)

type fuzzBase struct {
	file *c19File
	ds   *MemDataStore
	ms   bs.MetaStore
}

var (
	fuzzBasesOnce sync.Once
	fuzzBases     []*fuzzBase
)

func getFuzzBases() []*fuzzBase {
	fuzzBasesOnce.Do(func() {
		for i, comp := range []string{"none", "snappy", "zstd"} {
			c := c19Case{Comp: comp, Parts: 1 + i%3}
			for j := 0; j < 4+i; j++ {
				c.Rows = append(c.Rows, VObj(kv("msg", VStr(fmt.Sprintf("row %d error timeout", j))), kv("n", VInt(int64(j*7))), kv("tags", VArr(VStr("a"), VStr("b")))))
			}
			ds := NewMemDataStore(false)
			ms := bs.NewMemoryMetaStore()
			f, v := buildValidFile(c, ds, ms, 1)
			if v != nil {
				panic(v.Msg)
			}
			fuzzBases = append(fuzzBases, &fuzzBase{file: f, ds: ds, ms: ms})
		}
	})
	return fuzzBases
}

// FuzzC19File: arbitrary bytes as a file. No panic, bounded allocation,
// accepted metadata in bounds; queries through the filesystem store finish.
func FuzzC19File(f *testing.F) {
	for _, b := range getFuzzBases() {
		f.Add(b.file.raw)
		f.Add(b.file.raw[:len(b.file.raw)/2])
	}
	f.Fuzz(func(t *testing.T, data []byte) {
		if len(data) > 1<<20 {
			return
		}
		base := getFuzzBases()[0]
		empty := &c19File{ref: &refFile{}, rows: map[string]int{}}
		_ = base
		if v := exerciseHelpersNoModel(data, empty); v != nil {
			t.Fatalf("VIOLATION C19: %s", v.Msg)
		}
	})
}

func exerciseHelpersNoModel(b []byte, f *c19File) *Violation {
	// same oracle as exerciseHelpers, without a model of written rows: rows of
	// hashed blocks cannot be judged, everything else can
	budget := uint64(16*len(b)) + 4<<20
	var lm *bs.FileMetadata
	var err error
	if a := allocDuring(func() { lm, _, err = bs.ReadFileMetadata(bytes.NewReader(b)) }); a > budget {
		return violf("ReadFileMetadata allocated %d bytes for a %d-byte input", a, len(b))
	}
	if err != nil {
		return nil
	}
	for i, bm := range lm.DataBlocks {
		end := int64(bm.RowDataOffset) + int64(bm.RowDataSize)
		if bm.RowDataOffset < 0 || bm.RowDataSize < 0 || end < 0 || end > int64(len(b)) {
			return violf("ReadFileMetadata accepted block %d with row data [%d,+%d) outside the %d-byte input", i, bm.RowDataOffset, bm.RowDataSize, len(b))
		}
		fend := int64(bm.BloomFilterOffset) + int64(bm.BloomFilterSize)
		if bm.BloomFilterSize < 0 || (bm.BloomFilterSize > 0 && (bm.BloomFilterOffset < 0 || fend < 0 || fend > int64(len(b)))) {
			return violf("ReadFileMetadata accepted block %d with filter section [%d,+%d) outside the %d-byte input", i, bm.BloomFilterOffset, bm.BloomFilterSize, len(b))
		}
		bmCopy := bm
		if a := allocDuring(func() { _, _ = bs.ReadDataBlockBloomFilters(bytes.NewReader(b), bmCopy) }); a > budget {
			return violf("ReadDataBlockBloomFilters allocated %d bytes for a %d-byte input", a, len(b))
		}
		if bm.UncompressedSize <= 1<<20 {
			if a := allocDuring(func() { _, _ = bs.ReadDataBlockRowData(bytes.NewReader(b), &bmCopy) }); a > budget+uint64(4*maxInt(bm.UncompressedSize, 0)) {
				return violf("ReadDataBlockRowData allocated %d bytes for a %d-byte input", a, len(b))
			}
		}
	}
	return nil
}

// FuzzC19Mutate: byte-level edits of a valid file, queried with the ORIGINAL
// metadata held by the MetaStore: rows subset of written; Err nil => exact.
func FuzzC19Mutate(f *testing.F) {
	f.Add(uint8(0), []byte{0, 10, 1})
	f.Add(uint8(1), []byte{1, 200, 0xff, 0, 3, 4})
	f.Add(uint8(2), []byte{3, 0, 0x80})
	f.Fuzz(func(t *testing.T, sel uint8, ops []byte) {
		bases := getFuzzBases()
		base := bases[int(sel)%len(bases)]
		b := append([]byte(nil), base.file.raw...)
		// ops: triples (hi, lo, xor): position = (hi<<8|lo) mod len, byte ^= xor; xor==0 => truncate there
		for i := 0; i+2 < len(ops) && i < 30; i += 3 {
			if len(b) == 0 {
				break
			}
			pos := (int(ops[i])<<8 | int(ops[i+1])) % len(b)
			if ops[i+2] == 0 {
				b = b[:pos]
			} else {
				b[pos] ^= ops[i+2]
			}
		}
		ds := base.ds.Clone()
		ds.Put(base.file.ptr, b)
		eng, err := bs.NewBloomSearchEngine(bs.DefaultBloomSearchEngineConfig(), base.ms, ds)
		if err != nil {
			t.Fatal(err)
		}
		for _, q := range c19Queries() {
			out, v := c19RunQuery(eng, q)
			if v != nil {
				t.Fatalf("VIOLATION C19: %s", v.Msg)
			}
			if v := checkRowsWritten(out, base.file.rows, "fuzzed bytes, metadata held by the MetaStore"); v != nil {
				t.Fatalf("VIOLATION C19: %s", v.Msg)
			}
			if out.err == nil && len(out.rows) != len(base.file.order) {
				t.Fatalf("VIOLATION C19: Err=nil but %d of %d written rows returned", len(out.rows), len(base.file.order))
			}
		}
	})
}

// FuzzC19Hostile: one framing field set to an arbitrary int64, CRC-consistent.
func FuzzC19Hostile(f *testing.F) {
	f.Add(uint8(0), uint8(0), uint8(0), int64(-1))
	f.Add(uint8(1), uint8(4), uint8(1), int64(1<<62))
	f.Add(uint8(2), uint8(6), uint8(0), int64(1<<31))
	f.Fuzz(func(t *testing.T, sel, field, block uint8, value int64) {
		bases := getFuzzBases()
		base := bases[int(sel)%len(bases)]
		h := Hostile{Field: hostileFields[int(field)%len(hostileFields)], Block: int(block), Value: fmt.Sprintf("=%d", value)}
		corrupt, what := applyHostileValue(base.file, h, int(value))
		if v := exerciseHelpers(corrupt, base.file, what); v != nil {
			t.Fatalf("VIOLATION C19: %s", v.Msg)
		}
		dir := t.TempDir()
		if err := os.WriteFile(filepath.Join(dir, "bloom-1.dat"), corrupt, 0o600); err != nil {
			t.Skip()
		}
		fs := bs.NewFileSystemDataStore(dir)
		eng, err := bs.NewBloomSearchEngine(bs.DefaultBloomSearchEngineConfig(), fs, fs)
		if err != nil {
			t.Fatal(err)
		}
		out, v := c19RunQuery(eng, nil)
		if v != nil {
			t.Fatalf("VIOLATION C19: %s", v.Msg)
		}
		if v := checkRowsWritten(out, base.file.rows, what); v != nil {
			t.Fatalf("VIOLATION C19: %s", v.Msg)
		}
	})
}

func applyHostileValue(f *c19File, h Hostile, value int) ([]byte, string) {
	// reuse applyHostile's framing with a literal value
	saved := hostileLiteral
	hostileLiteral = &value
	defer func() { hostileLiteral = saved }()
	return applyHostile(f, []Hostile{h})
}

// FuzzC01Token: a one-row engine holding {"t": text}; every token of
// strings.Fields(strings.ToLower(text)) must be found through Token, FieldToken
// and Field queries (aims coverage guidance at the zero-alloc tokenizer path).
func FuzzC01Token(f *testing.F) {
	for _, s := range []string{"Error occurred", "a\u0085b", "É ǅ İ", " lead  trail ", "x y　z", "\xff\xfe", "K k ſ", ""} {
		f.Add(s)
	}
	f.Fuzz(func(t *testing.T, text string) {
		if len(text) > 4096 {
			return
		}
		ds := NewMemDataStore(false)
		ms := bs.NewMemoryMetaStore()
		cfg := bs.DefaultBloomSearchEngineConfig()
		cfg.MaxBufferedTime = time.Hour
		cfg.BloomFalsePositiveRate = 1e-9
		eng, err := bs.NewBloomSearchEngine(cfg, ms, ds)
		if err != nil {
			t.Fatal(err)
		}
		eng.Start()
		ctx := context.Background()
		defer func() {
			sctx, cancel := context.WithTimeout(ctx, 10*time.Second)
			eng.Stop(sctx)
			cancel()
		}()
		row := map[string]any{"id": 1, "t": text, "other": "unrelated"}
		done := make(chan error, 1)
		if err := eng.IngestRows(ctx, []map[string]any{row, {"id": 2, "other": "decoy"}}, done); err != nil {
			t.Fatal(err)
		}
		if err := eng.Flush(ctx); err != nil {
			t.Fatal(err)
		}
		if err := <-done; err != nil {
			t.Fatal(err)
		}
		// the stored text is what json.Marshal made of it (invalid UTF-8 coerced)
		jb, _ := json.Marshal(row)
		var back map[string]any
		json.Unmarshal(jb, &back)
		stored, _ := back["t"].(string)
		find := func(q *bs.Query, what string) {
			res, err := eng.Query(ctx, q)
			if err != nil {
				t.Fatalf("VIOLATION C01: query rejected: %v", err)
			}
			defer res.Close()
			found := false
			for res.Next() {
				if id, _ := rowID(res.Row()); id == 1 {
					found = true
				}
			}
			if res.Err() != nil {
				t.Fatalf("VIOLATION C01: query error %v", res.Err())
			}
			if !found {
				t.Fatalf("VIOLATION C01: FALSE NEGATIVE: %s does not return the row holding t=%q (stored as %q)", what, text, stored)
			}
		}
		find(bs.NewQuery().Field("t").Build(), "Field(t)")
		for _, tok := range strings.Fields(strings.ToLower(stored)) {
			find(bs.NewQuery().Token(tok).Build(), fmt.Sprintf("Token(%q)", tok))
			find(bs.NewQuery().FieldToken("t", tok).Build(), fmt.Sprintf("FieldToken(t,%q)", tok))
		}
	})
}

// FuzzC25QueryJSON: arbitrary bytes as the JSON of a Query. Whatever decodes
// must (a) re-marshal to a fixed point (marshal(unmarshal(marshal(q))) ==
// marshal(q)), (b) evaluate its prefilter identically before and after the
// round trip on a fixed set of block metadata, and (c) be either rejected with
// an error or answered identically by the fixed 32-row engine before and after
// the round trip — never a panic.
func FuzzC25QueryJSON(f *testing.F) {
	seeds := []string{
		`{"Bloom":{"Expression":{"ExpressionType":"AND","Children":[{"ExpressionType":"CONDITION","Condition":{"Type":"FIELD","Field":"f0"}},{"ExpressionType":"OR","Children":[{"ExpressionType":"CONDITION","Condition":{"Type":"TOKEN","Token":"t1"}},{"ExpressionType":"CONDITION","Condition":{"Type":"FIELD_TOKEN","Field":"ft2","Token":"v"}}]}]}}}`,
		`{"Regex":{"Expression":{"ExpressionType":"OR","Children":[{"ExpressionType":"CONDITION","Condition":{"Field":"tk","Pattern":"(^| )t3( |$)"}},{"ExpressionType":"CONDITION"}]}}}`,
		`{"Prefilter":{"Expression":{"ExpressionType":"AND","Children":[{"ExpressionType":"CONDITION","Condition":{"ConditionType":"MINMAX","MinMaxFieldName":"k0","MinMaxCondition":{"Operator":"BETWEEN","Min":0,"Max":9223372036854775806}}},{"ExpressionType":"CONDITION","Condition":{"ConditionType":"PARTITION","PartitionCondition":{"Operator":"IN","Values":["r01","r31"]}}}]}}}`,
		`{}`, `null`, `{"Bloom":{}}`, `{"Prefilter":{"Expression":{"ExpressionType":"XOR"}}}`,
	}
	for _, s := range seeds {
		f.Add([]byte(s))
	}
	blocks := []bs.DataBlockMetadata{
		{PartitionID: "r01", MinMaxIndexes: map[string]bs.MinMaxIndex{"k0": {Min: 0, Max: 1}, "k1": {Min: -5, Max: 5}}},
		{PartitionID: "", MinMaxIndexes: map[string]bs.MinMaxIndex{"k0": {Min: 9223372036854775807, Max: 9223372036854775807}}},
		{PartitionID: "r31"},
	}
	f.Fuzz(func(t *testing.T, data []byte) {
		if len(data) > 1<<14 {
			return
		}
		var q bs.Query
		if json.Unmarshal(data, &q) != nil {
			return
		}
		js1, err := json.Marshal(&q)
		if err != nil {
			t.Fatalf("VIOLATION: a decoded Query does not marshal: %v", err)
		}
		var back bs.Query
		if err := json.Unmarshal(js1, &back); err != nil {
			t.Fatalf("VIOLATION: marshal output of a Query does not decode: %v\n%s", err, js1)
		}
		js2, _ := json.Marshal(&back)
		if !bytes.Equal(js1, js2) {
			t.Fatalf("VIOLATION: Query JSON is not a fixed point of the round trip:\nfirst  %s\nsecond %s", js1, js2)
		}
		for i := range blocks {
			if a, b := bs.EvaluateDataBlockMetadata(&blocks[i], q.Prefilter), bs.EvaluateDataBlockMetadata(&blocks[i], back.Prefilter); a != b {
				t.Fatalf("VIOLATION: prefilter evaluates differently after a JSON round trip (%v vs %v) on block %d\n%s", a, b, i, js1)
			}
		}
		got1, qerr1, herr := c25Run(&q)
		if herr != nil {
			t.Skip()
		}
		got2, qerr2, _ := c25Run(&back)
		if (qerr1 == nil) != (qerr2 == nil) {
			t.Fatalf("VIOLATION: Query accepted/rejected differently after a JSON round trip (%v vs %v)\n%s", qerr1, qerr2, js1)
		}
		if qerr1 == nil && !sameInts(got1, got2) {
			t.Fatalf("VIOLATION: Query results differ after a JSON round trip: %v vs %v\n%s", got1, got2, js1)
		}
	})
}

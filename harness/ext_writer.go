package harness

// External writer: produces bloom files using only the public helpers and
// FILE_FORMAT.md (own filter-section encoder, WriteFileFooter for the footer).
// It covers layouts the engine itself never writes: blocks without filter
// sections, individually absent filters, no file-level filters, no row-data
// hash, "" compression, and deliberately oversized filters so that a file's
// block filter region spans several 4 MiB chunks.

import (
	"github.com/klauspost/compress/snappy"
	"github.com/klauspost/compress/zstd"
	"bytes"
	"context"
	"encoding/binary"
	"encoding/json"
	"fmt"
	"hash/crc32"

	"github.com/bits-and-blooms/bloom/v3"
	bs "github.com/danthegoodman1/bloomsearch"
)

type ExtOpt struct {
	Blocks         int    `json:"blocks"`           // rows are dealt round-robin into this many blocks
	NoBlockFilters bool   `json:"nobf,omitempty"`   // BloomFilterSize = 0 for every block
	AbsentFilter   int    `json:"absent,omitempty"` // 0 none, 1 field, 2 token, 3 field:token filter absent (block and file level)
	NoFileFilters  bool   `json:"noff,omitempty"`
	NoHash         bool   `json:"nohash,omitempty"`
	EmptyComp      bool   `json:"emptycomp,omitempty"` // Compression "" instead of "none"
	FilterPad      int    `json:"pad,omitempty"`       // size every block filter for this many entries (0 = exact)
	Part           string `json:"part,omitempty"`      // partition id of every block
	WithMinMax     bool   `json:"withminmax,omitempty"`
	ShuffleRegion  bool   `json:"shuffle,omitempty"` // write filter sections in reverse block order inside the region
	// NoSectionMask: bit i set = block i has no filter section (BloomFilterSize 0)
	// while other blocks of the same file have one
	NoSectionMask int `json:"nosecmask,omitempty"`
	// BadTail: this many garbage bytes follow the last row of the FIRST block's
	// row data (covered by the block's hash and sizes): the block verifies, its
	// rows scan, and the scan then fails on a truncated length prefix
	BadTail int `json:"badtail,omitempty"`
	// Comp: row data compression of the external file ("" / "none" = stored,
	// "snappy" = snappy stream format, "zstd"): an external writer is free to
	// compress, with or without a row data hash
	Comp string `json:"comp,omitempty"`
}

var crcTable = crc32.MakeTable(crc32.Castagnoli)

// encodeFilterSectionExt implements FILE_FORMAT.md "Bloom Filter Sections".
func encodeFilterSectionExt(field, token, fieldToken *bloom.BloomFilter) ([]byte, error) {
	var buf bytes.Buffer
	var flags byte
	if field != nil {
		flags |= 1
	}
	if token != nil {
		flags |= 2
	}
	if fieldToken != nil {
		flags |= 4
	}
	buf.WriteByte(flags)
	for _, f := range []*bloom.BloomFilter{field, token, fieldToken} {
		if f == nil {
			continue
		}
		var fb bytes.Buffer
		if _, err := f.WriteTo(&fb); err != nil {
			return nil, err
		}
		var l [4]byte
		binary.LittleEndian.PutUint32(l[:], uint32(fb.Len()))
		buf.Write(l[:])
		buf.Write(fb.Bytes())
	}
	var c [4]byte
	binary.LittleEndian.PutUint32(c[:], crc32.Checksum(buf.Bytes(), crcTable))
	buf.Write(c[:])
	return buf.Bytes(), nil
}

type entrySets struct {
	fields, tokens, fts map[string]bool
}

func newEntrySets() *entrySets {
	return &entrySets{fields: map[string]bool{}, tokens: map[string]bool{}, fts: map[string]bool{}}
}

func (s *entrySets) addRow(rs *RowSem) {
	for p := range rs.E.Paths {
		s.fields[p] = true
	}
	for t := range rs.Tokens {
		s.tokens[t] = true
	}
	for ft := range rs.FT {
		s.fts[ft[0]+"::"+ft[1]] = true
	}
}

func buildFilter(entries map[string]bool, fpr float64, pad int) *bloom.BloomFilter {
	n := len(entries)
	if n < 1 {
		n = 1
	}
	if pad > n {
		n = pad
	}
	f := bloom.NewWithEstimates(uint(n), fpr)
	for e := range entries {
		f.AddString(e)
	}
	return f
}

func (s *entrySets) filters(fpr float64, pad int, absent int) (f, t, ft *bloom.BloomFilter) {
	if absent != 1 {
		f = buildFilter(s.fields, fpr, pad)
	}
	if absent != 2 {
		t = buildFilter(s.tokens, fpr, pad)
	}
	if absent != 3 {
		ft = buildFilter(s.fts, fpr, pad)
	}
	return
}

// writeExternalFile writes one file holding st.Rows and registers it in the
// MetaStore. Rows are recorded in the model as stored (acked) rows.
func writeExternalFile(w *World, cfg EngCfg, cfgIdx int, st Step, nextID *int) ([]int, error) {
	opt := ExtOpt{Blocks: 1}
	if st.Ext != nil {
		opt = *st.Ext
	}
	if opt.Blocks < 1 {
		opt.Blocks = 1
	}
	tok := tokenizers[cfg.Tokenizer].Oracle
	ctx := context.Background()

	type blk struct {
		rows   []*StoredRow
		goRows []map[string]any
	}
	blocks := make([]blk, opt.Blocks)
	var ids []int
	for i, r := range st.Rows {
		id := *nextID
		*nextID++
		rv := withID(r, id)
		g := rowGo(rv)
		jb, err := json.Marshal(g)
		if err != nil {
			return nil, err
		}
		em, err := emissionsOf(jb)
		if err != nil {
			return nil, err
		}
		sr := &StoredRow{ID: id, Val: rv, JSON: jb, CfgIdx: cfgIdx, Sem: rowSem(em, tok), Unknown: em.Uncertain, Acked: true, Ext: true, ExtOpt: &opt}
		sr.Part = opt.Part
		sr.Facts = RowFacts{Partition: opt.Part, Nums: map[string]Exact{}}
		if opt.WithMinMax {
			sr.MinMax = append([]string(nil), cfg.MinMax...)
			for _, k := range cfg.MinMax {
				if mv, ok := getMember(rv, k); ok {
					if e, isNum := mv.Exact(); isNum && !e.NaN {
						sr.Facts.Nums[k] = e
					}
				}
			}
		}
		w.Rows[id] = sr
		w.Order = append(w.Order, id)
		ids = append(ids, id)
		b := &blocks[i%opt.Blocks]
		b.rows = append(b.rows, sr)
		b.goRows = append(b.goRows, g)
	}

	wr, ptr, err := w.Data.CreateFile(ctx)
	if err != nil {
		return nil, err
	}
	meta := bs.FileMetadata{BloomFalsePositiveRate: cfg.FPR}
	fileEntries := newEntrySets()
	offset := 0
	var sections [][]byte
	for _, b := range blocks {
		if len(b.rows) == 0 {
			continue
		}
		var data bytes.Buffer
		es := newEntrySets()
		mm := map[string]bs.MinMaxIndex{}
		for ri, sr := range b.rows {
			var l [4]byte
			binary.LittleEndian.PutUint32(l[:], uint32(len(sr.JSON)))
			data.Write(l[:])
			data.Write(sr.JSON)
			es.addRow(sr.Sem)
			fileEntries.addRow(sr.Sem)
			if opt.WithMinMax {
				for _, k := range cfg.MinMax {
					if v, ok := b.goRows[ri][k]; ok {
						lo, hi, isNum := bs.ConvertToMinMaxInt64(v)
						if !isNum {
							continue
						}
						if cur, has := mm[k]; has {
							mm[k] = bs.UpdateMinMaxIndex(cur, lo, hi)
						} else {
							mm[k] = bs.MinMaxIndex{Min: lo, Max: hi}
						}
					}
				}
			}
		}
		if opt.BadTail > 0 && len(meta.DataBlocks) == 0 {
			data.Write(bytes.Repeat([]byte{0xff}, opt.BadTail))
		}
		rawLen := data.Len()
		compKind := bs.CompressionNone
		switch opt.Comp {
		case "snappy":
			var cb bytes.Buffer
			sw := snappy.NewBufferedWriter(&cb)
			sw.Write(data.Bytes())
			sw.Close()
			data = cb
			compKind = bs.CompressionSnappy
		case "zstd":
			var cb bytes.Buffer
			zw, err := zstd.NewWriter(&cb, zstd.WithEncoderConcurrency(1))
			if err != nil {
				return nil, err
			}
			zw.Write(data.Bytes())
			zw.Close()
			data = cb
			compKind = bs.CompressionZstd
		}
		bm := bs.DataBlockMetadata{
			RowDataOffset: offset, RowDataSize: data.Len(), Rows: len(b.rows),
			PartitionID: opt.Part, Compression: compKind, UncompressedSize: rawLen,
			BloomFalsePositiveRate: cfg.FPR,
			BloomEntryCounts:       bs.BloomEntryCounts{Fields: len(es.fields), Tokens: len(es.tokens), FieldTokens: len(es.fts)},
		}
		if len(mm) > 0 {
			bm.MinMaxIndexes = mm
		}
		if opt.EmptyComp && compKind == bs.CompressionNone {
			bm.Compression = ""
		}
		if !opt.NoHash {
			bm.RowDataHash = crc32.Checksum(data.Bytes(), crcTable)
			bm.HasRowDataHash = true
		}
		if _, err := wr.Write(data.Bytes()); err != nil {
			return nil, err
		}
		offset += data.Len()
		if opt.NoBlockFilters || opt.NoSectionMask&(1<<uint(len(sections))) != 0 {
			sections = append(sections, nil)
		} else {
			f, t, ft := es.filters(cfg.FPR, opt.FilterPad, opt.AbsentFilter)
			sec, err := encodeFilterSectionExt(f, t, ft)
			if err != nil {
				return nil, err
			}
			sections = append(sections, sec)
		}
		meta.DataBlocks = append(meta.DataBlocks, bm)
	}
	// block filter region: sections back to back (optionally in reverse order —
	// FILE_FORMAT.md locates each section by its own absolute offset)
	meta.BlockFilterRegionOffset = offset
	order := make([]int, len(sections))
	for i := range order {
		order[i] = i
	}
	if opt.ShuffleRegion {
		for i, j := 0, len(order)-1; i < j; i, j = i+1, j-1 {
			order[i], order[j] = order[j], order[i]
		}
	}
	regionSize := 0
	for _, bi := range order {
		sec := sections[bi]
		if len(sec) == 0 {
			continue
		}
		meta.DataBlocks[bi].BloomFilterOffset = offset + regionSize
		meta.DataBlocks[bi].BloomFilterSize = len(sec)
		if _, err := wr.Write(sec); err != nil {
			return nil, err
		}
		regionSize += len(sec)
	}
	meta.BlockFilterRegionSize = regionSize
	if !opt.NoFileFilters {
		f, t, ft := fileEntries.filters(cfg.FPR, 0, opt.AbsentFilter)
		meta.BloomFilters = bs.BloomFilters{FieldBloomFilter: f, TokenBloomFilter: t, FieldTokenBloomFilter: ft}
		meta.BloomEntryCounts = bs.BloomEntryCounts{Fields: len(fileEntries.fields), Tokens: len(fileEntries.tokens), FieldTokens: len(fileEntries.fts)}
	}
	if len(meta.DataBlocks) == 0 {
		if ab, ok := wr.(interface{ Abort() error }); ok {
			ab.Abort()
		} else {
			wr.Close()
		}
		w.Data.TombstoneFile(ctx, ptr)
		return ids, nil
	}
	if err := bs.WriteFileFooter(wr, &meta); err != nil {
		return nil, err
	}
	if err := wr.Close(); err != nil {
		return nil, err
	}
	if err := w.Meta.Update(ctx, []bs.WriteOperation{{FileMetadata: &meta, FilePointerBytes: ptr}}, nil); err != nil {
		return nil, err
	}
	return ids, nil
}

var _ = fmt.Sprintf

package harness

// Independent reference semantics for prefilters (properties C01, C02, C04):
// exact-arithmetic row-level evaluation, the exists-semantics over a block's
// recorded range (saturated bounds open-ended), and the "metadata present"
// evaluation that bounds what a strict prefilter may let through.

import (
	"math"

	bs "github.com/danthegoodman1/bloomsearch"
)

// numSatisfies: does the exact value satisfy the numeric condition?
func numSatisfies(e Exact, c bs.NumericCondition) bool {
	if e.NaN {
		return false
	}
	switch c.Operator {
	case bs.OpEqual:
		return e.Cmp(c.Value) == 0
	case bs.OpNotEqual:
		return e.Cmp(c.Value) != 0
	case bs.OpGreaterThan:
		return e.Cmp(c.Value) > 0
	case bs.OpGreaterThanEqual:
		return e.Cmp(c.Value) >= 0
	case bs.OpLessThan:
		return e.Cmp(c.Value) < 0
	case bs.OpLessThanEqual:
		return e.Cmp(c.Value) <= 0
	case bs.OpIn:
		for _, x := range c.Values {
			if e.Cmp(x) == 0 {
				return true
			}
		}
		return false
	case bs.OpNotIn:
		for _, x := range c.Values {
			if e.Cmp(x) == 0 {
				return false
			}
		}
		return true
	case bs.OpBetween:
		return e.Cmp(c.Min) >= 0 && e.Cmp(c.Max) <= 0
	case bs.OpNotBetween:
		return e.Cmp(c.Min) < 0 || e.Cmp(c.Max) > 0
	}
	return false
}

func strSatisfies(v string, c bs.StringCondition) bool {
	switch c.Operator {
	case bs.OpEqual:
		return v == c.Value
	case bs.OpNotEqual:
		return v != c.Value
	case bs.OpGreaterThan:
		return v > c.Value
	case bs.OpGreaterThanEqual:
		return v >= c.Value
	case bs.OpLessThan:
		return v < c.Value
	case bs.OpLessThanEqual:
		return v <= c.Value
	case bs.OpIn:
		for _, x := range c.Values {
			if v == x {
				return true
			}
		}
		return false
	case bs.OpNotIn:
		for _, x := range c.Values {
			if v == x {
				return false
			}
		}
		return true
	case bs.OpBetween:
		return v >= c.Min && v <= c.Max
	case bs.OpNotBetween:
		return v < c.Min || v > c.Max
	}
	return false
}

// RowFacts is what a row contributes to prefilter metadata: its partition id
// ("" = not partitioned) and, for every configured minmax key, the exact value
// of its top-level field when that is a Go number other than NaN.
type RowFacts struct {
	Partition string
	Nums      map[string]Exact
}

// evalPrefilterTree evaluates a prefilter tree with leaf verdicts supplied by
// part (partition condition) and mm (minmax condition). Node semantics are the
// documented ones: nil expression / nil condition = true, empty OR = false,
// unknown types = false.
func evalPrefilterTree(e *bs.PrefilterExpression, part func(*bs.StringCondition) bool, mm func(string, *bs.NumericCondition) bool) bool {
	if e == nil {
		return true
	}
	switch e.ExpressionType {
	case bs.PrefilterExpressionCondition:
		c := e.Condition
		if c == nil {
			return true
		}
		switch c.ConditionType {
		case bs.PrefilterConditionPartition:
			if c.PartitionCondition == nil {
				return true
			}
			return part(c.PartitionCondition)
		case bs.PrefilterConditionMinMax:
			if c.MinMaxCondition == nil {
				return true
			}
			return mm(c.MinMaxFieldName, c.MinMaxCondition)
		}
		return false
	case bs.PrefilterExpressionOr:
		for i := range e.Children {
			if evalPrefilterTree(&e.Children[i], part, mm) {
				return true
			}
		}
		return false
	case bs.PrefilterExpressionAnd:
		for i := range e.Children {
			if !evalPrefilterTree(&e.Children[i], part, mm) {
				return false
			}
		}
		return true
	}
	return false
}

// rowSatisfiesPrefilter: the row's OWN partition id and indexed numeric values
// satisfy the tree (the C01/C04 obligation).
func rowSatisfiesPrefilter(f RowFacts, q *bs.QueryPrefilter) bool {
	if q == nil {
		return true
	}
	return evalPrefilterTree(q.Expression,
		func(c *bs.StringCondition) bool {
			if f.Partition == "" {
				return false
			}
			return strSatisfies(f.Partition, *c)
		},
		func(key string, c *bs.NumericCondition) bool {
			e, ok := f.Nums[key]
			if !ok {
				return false
			}
			return numSatisfies(e, *c)
		})
}

// rangeMaySatisfy: exists an integer x in the block's recorded range (with a
// bound stored at an int64 extreme read as open-ended) satisfying c. This is
// the harness's reading of "the block's metadata satisfies the condition".
func rangeMaySatisfy(r bs.MinMaxIndex, c bs.NumericCondition) bool {
	openAbove := r.Max == math.MaxInt64
	openBelow := r.Min == math.MinInt64
	in := func(x int64) bool { return (openBelow || x >= r.Min) && (openAbove || x <= r.Max) }
	single := !openAbove && !openBelow && r.Min == r.Max
	switch c.Operator {
	case bs.OpEqual:
		return in(c.Value)
	case bs.OpNotEqual:
		return !(single && r.Min == c.Value)
	case bs.OpGreaterThan:
		return openAbove || r.Max > c.Value
	case bs.OpGreaterThanEqual:
		return openAbove || r.Max >= c.Value
	case bs.OpLessThan:
		return openBelow || r.Min < c.Value
	case bs.OpLessThanEqual:
		return openBelow || r.Min <= c.Value
	case bs.OpIn:
		for _, x := range c.Values {
			if in(x) {
				return true
			}
		}
		return false
	case bs.OpNotIn:
		if openAbove || openBelow {
			return true
		}
		// finite range: some x in [Min,Max] not in Values
		width := uint64(r.Max) - uint64(r.Min) // number of integers in range minus one (Max >= Min)
		distinct := map[int64]bool{}
		for _, x := range c.Values {
			if x >= r.Min && x <= r.Max {
				distinct[x] = true
			}
		}
		return width >= uint64(len(distinct))
	case bs.OpBetween:
		if c.Min > c.Max {
			return false
		}
		return (openAbove || c.Min <= r.Max) && (openBelow || r.Min <= c.Max)
	case bs.OpNotBetween:
		return openAbove || openBelow || r.Min < c.Min || r.Max > c.Max
	}
	return false
}

// blockMaySatisfy: the block's metadata satisfies the tree (lower bound of the
// set of blocks a prefilter query must scan).
func blockMaySatisfy(b *bs.DataBlockMetadata, q *bs.QueryPrefilter) bool {
	if q == nil {
		return true
	}
	return evalPrefilterTree(q.Expression,
		func(c *bs.StringCondition) bool {
			if b.PartitionID == "" {
				return false
			}
			return strSatisfies(b.PartitionID, *c)
		},
		func(key string, c *bs.NumericCondition) bool {
			r, ok := b.MinMaxIndexes[key]
			if !ok {
				return false
			}
			return rangeMaySatisfy(r, *c)
		})
}

// blockHasMetadata: evaluate the tree with "metadata present" = true and
// "metadata missing" = false; a block for which this is false must never be
// scanned by a prefilter query (upper bound).
func blockHasMetadata(b *bs.DataBlockMetadata, q *bs.QueryPrefilter) bool {
	if q == nil {
		return true
	}
	return evalPrefilterTree(q.Expression,
		func(c *bs.StringCondition) bool { return b.PartitionID != "" },
		func(key string, c *bs.NumericCondition) bool {
			_, ok := b.MinMaxIndexes[key]
			return ok
		})
}

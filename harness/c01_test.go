package harness

// C01 — queries never miss a stored matching row.
// C02 — query results are exact at row level, block-granular for prefilters.
// Both judge the same generated "history + queries" runs (search_case.go) with
// the independent oracle in oracle_search.go / oracle_prefilter.go.

import (
	"fmt"
	"testing"
)

func classifyCase(sr *SearchRun) {
	h := sr.Case.Hist
	hasMerge, hasRestart, hasExt := false, false, false
	for _, s := range h.Steps {
		switch s.Op {
		case "merge":
			hasMerge = true
		case "restart":
			hasRestart = true
		case "ext":
			hasExt = true
		}
	}
	if hasMerge {
		Ev.Class("case:has-merge")
	}
	for _, m := range sr.World.MergeLog {
		if m.Combined > 0 {
			Ev.Class("case:merge-combined-blocks")
			break
		}
	}
	for _, f := range sr.Files {
		if f.Meta.BlockFilterRegionSize > 4<<20 {
			Ev.Class("case:multi-chunk-filter-region")
		}
		for _, b := range f.Blocks {
			if b.Meta.BloomFilterSize > 4<<20 {
				Ev.Class("case:oversize-filter-section")
			}
		}
	}
	if hasRestart {
		Ev.Class("case:has-restart")
	}
	if hasExt {
		Ev.Class("case:has-external-file")
	}
	Ev.Class("case:tokenizer=" + h.Cfg.Tokenizer)
	Ev.Class("case:compression=" + h.Cfg.Compression)
	Ev.Class("case:stores=" + h.Meta + "/" + h.Data)
	if sr.Case.MetaMode != "" {
		Ev.Class("case:metastore-" + sr.Case.MetaMode)
	}
	nb := sr.numBlocks()
	switch {
	case nb == 0:
		Ev.Class("case:blocks=0")
	case nb == 1:
		Ev.Class("case:blocks=1")
	case nb < 5:
		Ev.Class("case:blocks=2-4")
	default:
		Ev.Class("case:blocks>=5")
	}
	if len(sr.Files) >= 2 {
		Ev.Class("case:files>=2")
	}
	unk := 0
	for _, r := range sr.Stored {
		if r.Unknown {
			unk++
		}
	}
	if unk > 0 {
		Ev.Class("case:has-undecidable-rows")
	}
	Ev.ClassN("rows:stored", len(sr.Stored))
	Ev.ClassN("rows:undecidable", unk)
}

func judgeC01(sr *SearchRun) *Violation {
	for qi, run := range sr.Runs {
		Ev.Eval(1)
		ex := sr.expect(run.Spec)
		if run.QueryErr != nil {
			Ev.Class("query:rejected")
			if ex.Problem == "" {
				return violf("query %d rejected although every regex pattern is valid and every node type known: %v\nquery: %s", qi, run.QueryErr, shortJSON(run.Spec, 1500))
			}
			continue
		}
		if ex.Problem != "" {
			Ev.Class("query:unevaluable-accepted")
			continue
		}
		if run.Err != nil {
			return violf("query %d over healthy stores finished with Err=%v\nquery: %s", qi, run.Err, shortJSON(run.Spec, 1500))
		}
		got := map[int]int{}
		for _, id := range run.IDs {
			got[id]++
		}
		if hasPrefilter(run.Spec) {
			Ev.Class("query:with-prefilter")
		}
		if len(ex.MustMatch) > 0 {
			Ev.Class("query:has-must-match")
		}
		for _, id := range sortedIDs(ex.MustMatch) {
			if got[id] < 1 {
				return violf("FALSE NEGATIVE: query %d does not return a stored row that matches it.\nquery: %s\nmissing: %s\nreturned ids: %v\nconfig: %s metamode=%q", qi, shortJSON(run.Spec, 2000), sr.describeRow(id), run.IDs, shortJSON(sr.World.LastCfg, 600), sr.Case.MetaMode)
			}
		}
		// non-triviality: >=1 must-match row, >=1 stored decidable row that does not match, >=2 blocks
		if len(ex.MustMatch) >= 1 && len(ex.Matches) < len(sr.Stored)-len(ex.Unknown) && sr.numBlocks() >= 2 {
			Ev.NonTrivial(hashStrings(jsonKey(run.Spec), joinInts(sortedIDs(ex.MustMatch)), sr.layoutShape()))
			if Ev.WantSample() {
				Ev.Sample(map[string]any{"query": run.Spec, "must_match_ids": sortedIDs(ex.MustMatch), "layout": sr.layoutShape(), "config": sr.World.LastCfg, "steps": len(sr.Case.Hist.Steps)})
			}
		}
	}
	return nil
}

func judgeC02(sr *SearchRun) *Violation {
	for qi, run := range sr.Runs {
		Ev.Eval(1)
		ex := sr.expect(run.Spec)
		if run.QueryErr != nil || ex.Problem != "" {
			continue
		}
		got := map[int]int{}
		for i, id := range run.IDs {
			got[id]++
			r := sr.Stored[id]
			if id < 0 || r == nil {
				return violf("query %d returned a row that is not a stored row: %s\nquery: %s", qi, shortJSON(run.Rows[i], 600), shortJSON(run.Spec, 1500))
			}
			if got[id] > 1 {
				return violf("query %d returned stored row id %d %d times (stored once)\nquery: %s\n%s", qi, id, got[id], shortJSON(run.Spec, 1500), sr.describeRow(id))
			}
			if !r.Unknown && !ex.Matches[id] {
				return violf("FALSE POSITIVE: query %d returned a row that does not satisfy its bloom/regex expression.\nquery: %s\n%s", qi, shortJSON(run.Spec, 2000), sr.describeRow(id))
			}
		}
		q := run.Spec.Query()
		if !hasPrefilter(run.Spec) {
			// exact: result == matching stored rows (undecidable rows excepted)
			for _, id := range sortedIDs(ex.Matches) {
				if got[id] != 1 {
					return violf("query %d without prefilter: matching stored row returned %d times (want 1)\nquery: %s\n%s", qi, got[id], shortJSON(run.Spec, 1500), sr.describeRow(id))
				}
			}
			if len(ex.Matches) > 0 && len(ex.Matches) < len(sr.Stored) {
				Ev.NonTrivial(hashStrings("exact", jsonKey(run.Spec), joinInts(sortedIDs(ex.Matches)), sr.layoutShape()))
			}
			continue
		}
		Ev.Class("query:with-prefilter")
		// block-granular: the result is the matching rows of a set S of whole blocks
		nontrivial := false
		for _, f := range sr.Files {
			for _, b := range f.Blocks {
				var matching []int
				for _, id := range b.IDs {
					if ex.Matches[id] {
						matching = append(matching, id)
					}
				}
				returned := 0
				for _, id := range matching {
					if got[id] > 0 {
						returned++
					}
				}
				meta := b.Meta
				may := blockMaySatisfy(&meta, q.Prefilter)
				has := blockHasMetadata(&meta, q.Prefilter)
				if returned != 0 && returned != len(matching) {
					return violf("query %d with prefilter returned %d of the %d matching rows of one block (must be all or none)\nquery: %s\nblock: file %s offset %d ids %v", qi, returned, len(matching), shortJSON(run.Spec, 1500), b.File, b.Meta.RowDataOffset, b.IDs)
				}
				if may && returned != len(matching) {
					return violf("query %d: block whose metadata satisfies the prefilter was not scanned: %d matching rows missing\nquery: %s\nblock: file %s offset %d partition %q minmax %v", qi, len(matching), shortJSON(run.Spec, 1500), b.File, b.Meta.RowDataOffset, b.Meta.PartitionID, b.Meta.MinMaxIndexes)
				}
				if !has && returned > 0 {
					return violf("query %d: rows returned from a block that lacks the partition/minmax metadata its prefilter references (strict prefilter semantics)\nquery: %s\nblock: file %s offset %d partition %q minmax %v ids %v", qi, shortJSON(run.Spec, 1500), b.File, b.Meta.RowDataOffset, b.Meta.PartitionID, b.Meta.MinMaxIndexes, b.IDs)
				}
				if len(matching) > 0 && !may {
					nontrivial = true // a block with matching rows that the prefilter may exclude
				}
			}
		}
		if nontrivial && len(ex.Matches) > 0 {
			Ev.Class("query:prefilter-excludes-matching-block")
			Ev.NonTrivial(hashStrings("pref", jsonKey(run.Spec), joinInts(sortedIDs(ex.Matches)), sr.layoutShape()))
			if Ev.WantSample() {
				Ev.Sample(map[string]any{"query": run.Spec, "matching_ids": sortedIDs(ex.Matches), "returned_ids": run.IDs, "layout": sr.layoutShape()})
			}
		}
	}
	// queries must not change what is stored (metadata held by the MetaStore included)
	if v := sameWorld(sr.Files, sr.After); v != nil {
		return v
	}
	return nil
}

func sameWorld(before, after []*FileInfo) *Violation {
	if len(before) != len(after) {
		return violf("running queries changed the set of referenced files: %d before, %d after", len(before), len(after))
	}
	for i := range before {
		if before[i].Ptr != after[i].Ptr || len(before[i].Blocks) != len(after[i].Blocks) {
			return violf("running queries changed file %s / its block list (%d blocks before, %d after)", before[i].Ptr, len(before[i].Blocks), len(after[i].Blocks))
		}
		for j := range before[i].Blocks {
			if joinInts(before[i].Blocks[j].IDs) != joinInts(after[i].Blocks[j].IDs) || before[i].Blocks[j].Meta.RowDataOffset != after[i].Blocks[j].Meta.RowDataOffset {
				return violf("running queries changed the metadata/content of file %s block %d: ids %v -> %v", before[i].Ptr, j, before[i].Blocks[j].IDs, after[i].Blocks[j].IDs)
			}
		}
	}
	return nil
}

var searchOpts = HistOpts{MaxSteps: 10, MaxRows: 6, Merge: true, Restart: true, Ext: true, FS: true}
var minMaxOpts = HistOpts{MaxSteps: 20, MaxRows: 3, Merge: true, MinMaxHeavy: true}
var mergeHeavyOpts = HistOpts{MaxSteps: 12, MaxRows: 4, Merge: true, Restart: true, Ext: true, FS: true, MergeHeavy: true}

func runSearchProperty(judge func(*SearchRun) *Violation) func(SearchCase) *Violation {
	return func(c SearchCase) *Violation {
		sr, v := execSearchCase(c)
		if v != nil {
			return v
		}
		defer sr.World.Close()
		classifyCase(sr)
		return judge(sr)
	}
}

func TestC01(t *testing.T) {
	Ev.Rule = "case = generated history (ingest/flush/auto-flush by limits/restart with another config/merge/external-writer file; mem or filesystem stores; conforming MetaStore variants) + up to 10 queries (bloom tree, regex tree, prefilter tree drawn from hit / near-miss / absent entries of the stored rows, nil/empty/unknown nodes); minmax phase: both numeric pool fields indexed, 3-8 single-flush files of 1-3 rows over one or two partitions with small/fractional/extreme numbers, merged into blocks whose range is the hull of several source ranges, prefilter-only queries with operands next to the stored values). Oracle: independent JSON walker + tokenizer + tree evaluation + exact-arithmetic row-level prefilter. Non-trivial: the query has >=1 stored row that must match and >=1 decidable stored row that does not, over >=2 blocks; distinct by hash(query, must-match id set, layout shape)."
	Ev.Assumptions = []string{
		"rows whose semantics the documentation does not decide (top-level \"\" key, invalid UTF-8 / surrogate escapes inside raw JSON) impose no obligation",
		"tokenizer is fixed within a history (restarts change every other setting)",
		"bloom filters make a missing index entry only probabilistically visible; half the cases use FPR<=1e-6",
	}
	runChecks(t, "search", 250, 8000, genSearchCase(searchOpts, 10, true), runSearchProperty(judgeC01))
	runChecks(t, "merged", 150, 5000, genSearchCase(mergeHeavyOpts, 10, true), runSearchProperty(judgeC01))
	runChecks(t, "minmax", 120, 4000, genSearchCase(minMaxOpts, 8, true), runSearchProperty(judgeC01))
	bigFilterPhase(t, judgeC01)
	fmt.Print()
}

func TestC02(t *testing.T) {
	Ev.Rule = "same generated space as C01. Oracle: every returned row is a stored (nil-acked) row matching bloom AND regex under the reference semantics, at most once; without prefilter result == matching stored rows exactly; with prefilter, per block (membership read back through MetaStore + ReadDataBlockRowData) matching rows are all-or-none, blocks whose metadata satisfies the tree (exists-semantics, saturated bounds open) are all returned, blocks lacking referenced metadata return nothing; stored world unchanged by queries; blockmeta phase: generated block metadata (ranges folded from values of every numeric kind) x prefilter trees judged directly on EvaluateDataBlockMetadata/FilterDataBlocks. Non-trivial: exact phase: 0 < matching < stored; prefilter phase: some block holds matching rows and its metadata does not satisfy the prefilter. Distinct by hash(query, matching ids, layout)."
	Ev.Assumptions = []string{"same undecidable-row exemption as C01", "block membership is read with the library's public read helpers"}
	runChecks(t, "search", 250, 8000, genSearchCase(searchOpts, 10, true), runSearchProperty(judgeC02))
	runChecks(t, "merged", 150, 5000, genSearchCase(mergeHeavyOpts, 10, true), runSearchProperty(judgeC02))
	runChecks(t, "minmax", 120, 4000, genSearchCase(minMaxOpts, 8, true), runSearchProperty(judgeC02))
	// the block-granular clauses on the public evaluation function that both the
	// MetaStore filter and the engine's own re-filter use: a block whose metadata
	// satisfies the tree (exists-semantics) is included, a block lacking
	// metadata a needed condition references is not
	runChecks(t, "blockmeta", 10000, 400000, genC04Tree(), runC04Tree)
}

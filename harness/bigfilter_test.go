package harness

import "testing"

// bigFilterPhase: cases whose external files carry multi-MB filter sections so a
// file's block filter region spans several 4 MiB chunks (implemented below).
func bigFilterPhase(t *testing.T, judge func(*SearchRun) *Violation) {
	o := HistOpts{MaxSteps: 4, MaxRows: 5, Merge: false, Restart: false, Ext: true, FS: false, LowFPR: true, BigFilters: true}
	runChecks(t, "bigfilters", 4, 120, genSearchCase(o, 6, true), runSearchProperty(judge))
}

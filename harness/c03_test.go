package harness

// C03 — returned rows faithfully reproduce the stored JSON and are independent.
// Fidelity: every returned row reflect.DeepEquals json.Unmarshal(json.Marshal(row))
// into map[string]any. Independence: every received row is snapshotted, then
// deep-mutated; rows of the same result, of concurrently running queries, of
// early-closed queries whose rows are kept, and of later queries (which recycle
// the pooled scan buffers) must be unaffected.

import (
	"context"
	"encoding/json"
	"fmt"
	"reflect"
	"strings"
	"sync"
	"testing"
	"time"

	bs "github.com/danthegoodman1/bloomsearch"
	"pgregory.net/rapid"
)

type c03Row struct {
	K    int  `json:"k"`    // grouping key ("k" field); identical rows share it
	Grp  int  `json:"grp"`  // "grp" field g0/g1
	Body Val  `json:"body"` // generated members
	Pad  int  `json:"pad"`  // length of the padding string
	Dup  int  `json:"dup"`  // how many extra byte-identical copies are ingested right after it
}

type c03Script struct {
	Kind     string `json:"kind"`      // "all", "token", "grp"
	CloseAt  int    `json:"close_at"`  // -1: read to the end; n: Close after n rows and keep them
	MutateAt int    `json:"mutate_at"` // mutate every MutateAt-th received row (1 = all)
}

type c03Case struct {
	Comp      string        `json:"comp"`
	Rows      []c03Row      `json:"rows"`
	BatchSize int           `json:"batch"`  // rows per ingest batch (each batch flushed => block)
	Parts     int           `json:"parts"`  // partitions (blocks per flush)
	Workers   [][]c03Script `json:"workers"` // concurrent goroutines, each a sequence of queries
	After     int           `json:"after"`  // extra full queries run afterwards to recycle buffers
	QConc     int           `json:"qconc"`
}

func genC03() *rapid.Generator[c03Case] {
	return rapid.Custom(func(t *rapid.T) c03Case {
		c := c03Case{Comp: pick(t, "comp", []string{"snappy", "none", "zstd"})}
		big := chance(t, "bigblocks", 40) // blocks with more than one 64-row batch
		n := rapid.IntRange(2, 14).Draw(t, "nrows")
		if big {
			n = rapid.IntRange(70, 200).Draw(t, "nrowsbig")
		}
		spec := RowSpec{}
		for i := 0; i < n; i++ {
			r := c03Row{K: i, Grp: unif(t, "grp", 2)}
			if big {
				r.Body = Val{K: "obj", O: drawObjMembers(t, 2, 2, true)}
				r.Pad = pick(t, "pad", []int{0, 8, 40})
			} else {
				r.Body = drawRow(t, spec)
				r.Pad = pick(t, "pad", []int{0, 300, 700, 1500})
			}
			if chance(t, "dup", 15) {
				r.Dup = rapid.IntRange(1, 3).Draw(t, "ndup")
			}
			c.Rows = append(c.Rows, r)
		}
		c.BatchSize = pick(t, "batch", []int{1000, 3, 5, 40})
		c.Parts = pick(t, "parts", []int{1, 2, 3})
		nw := rapid.IntRange(1, 6).Draw(t, "nworkers")
		for w := 0; w < nw; w++ {
			nq := rapid.IntRange(1, 3).Draw(t, "nq")
			var qs []c03Script
			for i := 0; i < nq; i++ {
				s := c03Script{Kind: pick(t, "kind", []string{"all", "token", "grp", "all"}), CloseAt: -1, MutateAt: pick(t, "mut", []int{1, 2, 3})}
				if chance(t, "early", 35) {
					s.CloseAt = rapid.IntRange(1, 130).Draw(t, "closeat")
				}
				qs = append(qs, s)
			}
			c.Workers = append(c.Workers, qs)
		}
		c.After = rapid.IntRange(1, 4).Draw(t, "after")
		c.QConc = pick(t, "qconc", []int{1000, 1, 2, 4})
		return c
	})
}

func deepCopy(v any) any {
	switch x := v.(type) {
	case map[string]any:
		out := make(map[string]any, len(x))
		for k, e := range x {
			out[k] = deepCopy(e)
		}
		return out
	case []any:
		out := make([]any, len(x))
		for i, e := range x {
			out[i] = deepCopy(e)
		}
		return out
	}
	return v
}

// deepMutate changes every container reachable from the row in place.
func deepMutate(v any) {
	switch x := v.(type) {
	case map[string]any:
		for k, e := range x {
			deepMutate(e)
			switch e.(type) {
			case map[string]any, []any:
			default:
				x[k] = "MUTATED"
			}
		}
		x["__mutated"] = true
	case []any:
		for i, e := range x {
			deepMutate(e)
			switch e.(type) {
			case map[string]any, []any:
			default:
				x[i] = "MUTATED"
			}
		}
	}
}

func hasNestedContainer(m map[string]any) bool {
	for _, e := range m {
		switch e.(type) {
		case map[string]any, []any:
			return true
		}
	}
	return false
}

type heldRow struct {
	row   map[string]any // the row as received (possibly mutated by us afterwards)
	snap  map[string]any // deep copy taken on receipt, before any mutation
	after map[string]any // deep copy taken right after OUR mutation (nil if not mutated)
	k     int
	src   string
}

func c03Query(kind string) *bs.Query {
	switch kind {
	case "token":
		return bs.NewQuery().Token("zz").Build()
	case "grp":
		return bs.NewQuery().FieldToken("grp", "g1").Build()
	}
	return bs.NewQuery().Build()
}

func runC03(c c03Case) *Violation {
	Ev.Eval(1)
	cfg := bs.DefaultBloomSearchEngineConfig()
	cfg.MaxBufferedTime = time.Hour
	cfg.RowDataCompression = bs.CompressionType(c.Comp)
	cfg.MaxQueryConcurrency = c.QConc
	if c.Parts > 1 {
		np := c.Parts
		cfg.PartitionFunc = func(row map[string]any) string {
			k, _ := row["k"].(int)
			return fmt.Sprintf("p%d", k%np)
		}
	}
	ds := NewMemDataStore(false)
	ms := bs.NewMemoryMetaStore()
	eng, err := bs.NewBloomSearchEngine(cfg, ms, ds)
	if err != nil {
		return violf("config rejected: %v", err)
	}
	eng.Start()
	ctx := context.Background()
	defer func() {
		sctx, cancel := context.WithTimeout(ctx, 30*time.Second)
		eng.Stop(sctx)
		cancel()
	}()

	// ingest; expected[k] = the rows encoding/json reconstructs (nil entry: undecodable => no expectation)
	type exp struct {
		want      map[string]any
		n         int
		decodable bool
		grp       int
	}
	expected := map[int]*exp{}
	var batch []map[string]any
	flush := func() *Violation {
		if len(batch) == 0 {
			return nil
		}
		done := make(chan error, 1)
		if err := eng.IngestRows(ctx, batch, done); err != nil {
			return violf("ingest: %v", err)
		}
		if err := eng.Flush(ctx); err != nil {
			return violf("flush: %v", err)
		}
		if err := <-done; err != nil {
			return violf("ack error on healthy store: %v", err)
		}
		batch = nil
		return nil
	}
	for _, r := range c.Rows {
		g := rowGo(r.Body)
		g["k"] = r.K
		g["grp"] = fmt.Sprintf("g%d", r.Grp)
		g["common"] = "zz top"
		if r.Pad > 0 {
			g["pad"] = strings.Repeat("p", r.Pad)
		}
		jb, err := json.Marshal(g)
		if err != nil {
			return violf("generated row not marshalable: %v", err)
		}
		e := &exp{n: 1 + r.Dup, grp: r.Grp}
		var want map[string]any
		if json.Unmarshal(jb, &want) == nil {
			e.want, e.decodable = want, true
		}
		expected[r.K] = e
		for i := 0; i <= r.Dup; i++ {
			batch = append(batch, g) // the same Go map: byte-identical stored rows
			if len(batch) >= c.BatchSize {
				if v := flush(); v != nil {
					return v
				}
			}
		}
	}
	if v := flush(); v != nil {
		return v
	}

	var mu sync.Mutex
	var held []*heldRow
	var viol *Violation
	setViol := func(v *Violation) {
		mu.Lock()
		if viol == nil {
			viol = v
		}
		mu.Unlock()
	}
	nested := false
	overlapped := int32(0)

	runOne := func(s c03Script, src string) {
		res, err := eng.Query(ctx, c03Query(s.Kind))
		if err != nil {
			setViol(violf("query rejected: %v", err))
			return
		}
		var mine []*heldRow
		n := 0
		for res.Next() {
			row := res.Row()
			n++
			h := &heldRow{row: row, snap: deepCopy(row).(map[string]any), src: src}
			if kf, ok := row["k"].(float64); ok {
				h.k = int(kf)
			} else {
				h.k = -1
			}
			if s.MutateAt > 0 && n%s.MutateAt == 0 {
				if hasNestedContainer(row) {
					mu.Lock()
					nested = true
					mu.Unlock()
				}
				deepMutate(row)
				h.after = deepCopy(row).(map[string]any)
			}
			mine = append(mine, h)
			if s.CloseAt >= 0 && n >= s.CloseAt {
				break
			}
		}
		res.Close()
		complete := s.CloseAt < 0 || n < s.CloseAt
		if complete {
			if err := res.Err(); err != nil {
				setViol(violf("query over healthy store finished with Err=%v", err))
			}
			// fidelity + multiset
			got := map[int][]map[string]any{}
			for _, h := range mine {
				got[h.k] = append(got[h.k], h.snap)
			}
			for k, e := range expected {
				want := e.n
				if s.Kind == "grp" && e.grp != 1 {
					want = 0
				}
				if len(got[k]) != want {
					setViol(violf("%s query: row group k=%d returned %d times, stored %d times", s.Kind, k, len(got[k]), want))
					return
				}
				if !e.decodable {
					continue
				}
				for _, g := range got[k] {
					if !reflect.DeepEqual(g, e.want) {
						setViol(violf("returned row differs from the JSON round trip of the ingested row (k=%d):\nreturned %s\nexpected %s", k, shortJSON(g, 1500), shortJSON(e.want, 1500)))
						return
					}
				}
			}
			for k := range got {
				if expected[k] == nil {
					setViol(violf("query returned a row with unknown k=%d: %s", k, shortJSON(got[k][0], 600)))
					return
				}
			}
		}
		mu.Lock()
		held = append(held, mine...)
		mu.Unlock()
	}

	var wg sync.WaitGroup
	for wi, w := range c.Workers {
		wg.Add(1)
		go func(wi int, w []c03Script) {
			defer wg.Done()
			for qi, s := range w {
				runOne(s, fmt.Sprintf("worker%d/q%d", wi, qi))
			}
		}(wi, w)
	}
	if len(c.Workers) >= 2 {
		overlapped = 1
	}
	wg.Wait()
	// later queries recycle the pooled block buffers
	for i := 0; i < c.After; i++ {
		runOne(c03Script{Kind: "all", CloseAt: -1, MutateAt: 0}, fmt.Sprintf("after%d", i))
	}
	if viol != nil {
		return viol
	}
	// every held row must still be what it was: its snapshot if we did not
	// touch it, our mutated copy if we did — nothing else may have changed it
	for _, h := range held {
		want := h.snap
		if h.after != nil {
			want = h.after
		}
		if !reflect.DeepEqual(h.row, want) {
			return violf("a held row changed without being touched (%s, k=%d): other rows, concurrent or later queries, or engine buffers share state with it\nnow      %s\nexpected %s", h.src, h.k, shortJSON(h.row, 1200), shortJSON(want, 1200))
		}
	}
	Ev.Class("comp=" + c.Comp)
	if nested {
		Ev.Class("mutated-nested-container")
	}
	blocks := 0
	if files, err := ReadWorld(ds, ms); err == nil {
		for _, f := range files {
			for _, b := range f.Blocks {
				if b.Meta.UncompressedSize >= 1024 {
					blocks++
				}
			}
		}
	}
	if blocks >= 2 {
		Ev.Class("pool-eligible-blocks>=2")
	}
	if overlapped == 1 && blocks >= 2 && nested {
		Ev.NonTrivial(jsonKey(c))
		if Ev.WantSample() {
			small := c
			if len(small.Rows) > 3 {
				small.Rows = small.Rows[:3]
			}
			Ev.Sample(map[string]any{"case_first_rows": small, "total_rows": len(c.Rows), "held_rows": len(held)})
		}
	}
	return nil
}

func TestC03(t *testing.T) {
	Ev.Rule = "case = rows from the row grammar (escapes, unicode, every numeric kind, precise/big numbers, raw JSON incl. duplicate keys and exponent forms, nested containers; byte-identical duplicates) padded so several blocks fall in the same pooled scan-buffer size class, all compressions, 1-3 partitions; 1-6 concurrent goroutines each running 1-3 queries (match-all / token / field:token), some closing early and keeping their rows; then 1-4 further full queries. Oracle: (a) each row of a completed query reflect.DeepEquals json.Unmarshal(json.Marshal(ingested row)) and the returned multiset equals the stored one; (b) each received row is deep-copied on receipt, then deep-mutated; at the end every held row must equal its own snapshot / own mutation. pool phase: one file of 3-5 equally sized blocks (300-1200 rows, one scan-buffer size class); a prelude of queries that end abnormally (failed row-data read, silently corrupted read, early Close, cancel), then a query parked mid-scan by a stalled consumer while other queries scan other blocks, GOMAXPROCS 1/2/default; every query ending with Err nil must have returned exactly its own block's rows, faithful and once each. bigpool phase: the same with ~2.5 MiB blocks and a block filter region of several 4 MiB chunks (170 000 distinct tokens per block at 1e-12), where the prelude fails a later chunk read of the filter pass. Non-trivial: >=2 concurrent query goroutines, >=2 pool-eligible blocks (>=1 KiB) and a nested container was mutated; distinct by case."
	Ev.Assumptions = []string{"rows whose marshaled form encoding/json cannot decode (e.g. 1e400) are excluded from the fidelity clause, as the property states", "sync.Pool reuse cannot be forced; many sequential scans of same-class blocks make it likely"}
	runChecks(t, "rows", 200, 4000, genC03(), runC03)
	runChecks(t, "pool", 120, 3000, genC03Pool(), runC03Pool)
	runChecks(t, "bigpool", 6, 120, genC03PoolBig(), runC03Pool)
}

var _ = rapid.Bool

package harness

// Evidence recorder: every check counts what it generated, which cases were
// non-trivial by its stated rule (a hash set, so the count is of DISTINCT
// cases), the class histogram of generated cases and a few verbatim samples.
// The file is written by TestMain on exit (evidence/Cxx.json, or a shard part
// that the driver merges).

import (
	"encoding/json"
	"fmt"
	"hash/fnv"
	"os"
	"sort"
	"sync"
	"time"
)

type Evidence struct {
	mu          sync.Mutex
	Prop        string
	Tier        string
	Level       string
	Seed        int64
	Rule        string
	Assumptions []string
	evaluations int64
	nontrivial  map[uint64]struct{}
	classes     map[string]int64
	samples     []any
	maxSamples  int
	violations  int
	known       map[string]int // known-finding key -> times observed
	excluded    int64          // cases excluded from search because they hit a known finding
	extra       map[string]any
	start       time.Time
}

func NewEvidence(prop, tier string, seed int64) *Evidence {
	return &Evidence{
		Prop: prop, Tier: tier, Seed: seed, Level: "exploration",
		nontrivial: map[uint64]struct{}{}, classes: map[string]int64{},
		known: map[string]int{}, extra: map[string]any{}, maxSamples: 5, start: time.Now(),
	}
}

func hash64(s string) uint64 {
	h := fnv.New64a()
	h.Write([]byte(s))
	return h.Sum64()
}

// Eval counts n evaluated cases.
func (e *Evidence) Eval(n int) {
	e.mu.Lock()
	e.evaluations += int64(n)
	e.mu.Unlock()
}

// NonTrivial records a case that satisfied the property's non-triviality rule;
// key is a canonical encoding of the case (distinctness is by its hash).
func (e *Evidence) NonTrivial(key string) {
	h := hash64(key)
	e.mu.Lock()
	e.nontrivial[h] = struct{}{}
	e.mu.Unlock()
}

func (e *Evidence) Class(name string) { e.ClassN(name, 1) }

func (e *Evidence) ClassN(name string, n int) {
	e.mu.Lock()
	e.classes[name] += int64(n)
	e.mu.Unlock()
}

// Sample keeps up to maxSamples verbatim cases (the first ones offered that
// are marked interesting, so samples show non-trivial cases).
func (e *Evidence) Sample(v any) {
	e.mu.Lock()
	if len(e.samples) < e.maxSamples {
		// round-trip through JSON now so later mutation cannot change it
		if b, err := json.Marshal(v); err == nil && len(b) < 64<<10 {
			var x any
			if json.Unmarshal(b, &x) == nil {
				e.samples = append(e.samples, x)
			}
		}
	}
	e.mu.Unlock()
}

func (e *Evidence) WantSample() bool {
	e.mu.Lock()
	defer e.mu.Unlock()
	return len(e.samples) < e.maxSamples
}

func (e *Evidence) Violation() {
	e.mu.Lock()
	e.violations++
	e.mu.Unlock()
}

func (e *Evidence) Known(key string) {
	e.mu.Lock()
	e.known[key]++
	e.mu.Unlock()
}

func (e *Evidence) Excluded(n int) {
	e.mu.Lock()
	e.excluded += int64(n)
	e.mu.Unlock()
}

func (e *Evidence) Set(k string, v any) {
	e.mu.Lock()
	e.extra[k] = v
	e.mu.Unlock()
}

func (e *Evidence) Add(k string, n int64) {
	e.mu.Lock()
	cur, _ := e.extra[k].(int64)
	e.extra[k] = cur + n
	e.mu.Unlock()
}

// Write emits the evidence file. When part is true the raw hash set is
// included so that the driver can merge shards into one distinct count.
func (e *Evidence) Write(path string, part bool) error {
	e.mu.Lock()
	defer e.mu.Unlock()
	cov := map[string]any{
		"evaluations":         e.evaluations,
		"distinct_nontrivial": len(e.nontrivial),
		"rule":                e.Rule,
		"samples":             e.samples,
		"classes":             e.classes,
	}
	if e.samples == nil {
		cov["samples"] = []any{}
	}
	for k, v := range e.extra {
		cov[k] = v
	}
	if len(e.known) > 0 {
		cov["known_findings_observed"] = e.known
	}
	if e.excluded > 0 {
		cov["excluded_known"] = e.excluded
	}
	if part {
		hs := make([]string, 0, len(e.nontrivial))
		for h := range e.nontrivial {
			hs = append(hs, fmt.Sprintf("%016x", h))
		}
		sort.Strings(hs)
		cov["_hashes"] = hs
	}
	doc := map[string]any{
		"property_id": e.Prop,
		"tier":        e.Tier,
		"seed":        e.Seed,
		"level":       e.Level,
		"coverage":    cov,
		"assumptions": e.Assumptions,
		"wall_s":      time.Since(e.start).Seconds(),
		"violations":  e.violations,
	}
	if e.Assumptions == nil {
		doc["assumptions"] = []string{}
	}
	b, err := json.MarshalIndent(doc, "", " ")
	if err != nil {
		return err
	}
	tmp := path + ".tmp"
	if err := os.WriteFile(tmp, b, 0o644); err != nil {
		return err
	}
	return os.Rename(tmp, path)
}

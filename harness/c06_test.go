package harness

// C06 — acknowledgements are truthful: nil means durable, error means absent.
// Fault enumeration: a generated sequential ingest history is first run
// fault-free to number the store calls, then re-run once per call position
// (and for a generated sample of position pairs) with a failure injected there.

import (
	"context"
	"errors"
	"fmt"
	"sort"
	"testing"
	"time"

	bs "github.com/danthegoodman1/bloomsearch"
	"pgregory.net/rapid"
)

type c06Step struct {
	Op   string `json:"op"` // ingest, flush
	Rows []Val  `json:"rows,omitempty"`
	Bad  int    `json:"bad,omitempty"` // index+1 of the row made unmarshalable (0 = none)
	BadK string `json:"badk,omitempty"`
}

type c06Case struct {
	Cfg   EngCfg    `json:"cfg"`
	Data  string    `json:"data"` // mem, mem-noabort, fs
	// FSMeta: FileSystemDataStore is also the MetaStore. Its Update is not
	// atomic, so only the "nil means durable and visible" clause is judged.
	FSMeta bool `json:"fsmeta,omitempty"`
	Steps []c06Step `json:"steps"`
	Pairs [][2]int  `json:"pairs"` // per-mille positions of sampled fault pairs
}

var faultableKinds = map[string]bool{"CreateFile": true, "Write": true, "Close": true, "Abort": true, "Update": true, "Tombstone": true}

var _ = errors.New

func genC06() *rapid.Generator[c06Case] {
	return rapid.Custom(func(t *rapid.T) c06Case {
		c := c06Case{Data: pick(t, "data", []string{"mem", "mem-noabort", "fs", "mem"})}
		if c.Data == "fs" && rapid.Bool().Draw(t, "fsmeta") {
			c.FSMeta = true
		}
		c.Cfg = drawCfg(t, "default", numFieldPool, true)
		c.Cfg.BufTimeMs = 0
		// limits that trigger flushes on their own now and then
		c.Cfg.BufRows = pick(t, "bufrows", []int{1000, 2, 3, 5})
		c.Cfg.RGRows = pick(t, "rgrows", []int{10000, 2, 4})
		c.Cfg.BufBytes = pick(t, "bufbytes", []int{1 << 20, 300, 1000})
		c.Cfg.RGBytes = pick(t, "rgbytes", []int{10 << 20, 400})
		spec := RowSpec{PartField: partFieldName, NumFields: numFieldPool}
		n := rapid.IntRange(2, 7).Draw(t, "nsteps")
		for i := 0; i < n; i++ {
			if i > 0 && chance(t, "flush", 30) {
				c.Steps = append(c.Steps, c06Step{Op: "flush"})
				continue
			}
			k := rapid.IntRange(1, 4).Draw(t, "nrows")
			st := c06Step{Op: "ingest"}
			for j := 0; j < k; j++ {
				st.Rows = append(st.Rows, drawRow(t, spec))
			}
			if chance(t, "bad", 20) {
				st.Bad = 1 + unif(t, "badidx", k)
				st.BadK = pick(t, "badkind", []string{"badchan", "badnan", "badfunc", "badinf"})
			}
			c.Steps = append(c.Steps, st)
		}
		np := rapid.IntRange(0, 3).Draw(t, "npairs")
		for i := 0; i < np; i++ {
			c.Pairs = append(c.Pairs, [2]int{rapid.IntRange(0, 999).Draw(t, "p1"), rapid.IntRange(0, 999).Draw(t, "p2")})
		}
		return c
	})
}

type c06Batch struct {
	ids  []int
	bad  bool
	ack  error
	have bool
}

type c06Obs struct {
	calls   int // faultable calls seen
	kindAt  []string
	fired   map[int]string
	batches []*c06Batch
	visNow  map[int]int // id -> times visible right after the history (same engine)
	visNew  map[int]int // fresh engine over the same stores
	visEnd  map[int]int // after a final Merge, fresh engine
	log     []CallRec
}

func visibleIDs(eng *bs.BloomSearchEngine) (map[int]int, error) {
	res, err := eng.Query(context.Background(), nil)
	if err != nil {
		return nil, err
	}
	rows, rerr, ok := collectResults(res, 60*time.Second)
	res.Close()
	if !ok {
		return nil, fmt.Errorf("match-all query did not finish within 60s")
	}
	if rerr != nil {
		return nil, fmt.Errorf("match-all query Err: %w", rerr)
	}
	out := map[int]int{}
	for _, r := range rows {
		id, ok := rowID(r)
		if !ok {
			id = -1
		}
		out[id]++
	}
	return out, nil
}

// runC06Once executes the history with the fault plan (faultable-call ordinal
// -> mode: "before", "short", "after").
func runC06Once(c c06Case, plan map[int]string) (*c06Obs, *Violation) {
	metaKind := "mem"
	if c.FSMeta {
		metaKind = "fs"
	}
	ds, ms, _, _, cleanup, err := newStores(metaKind, c.Data)
	if err != nil {
		infra("stores: %v", err)
		return nil, nil
	}
	defer cleanup()
	obs := &c06Obs{fired: map[int]string{}}
	tr := NewTrace(ds, ms)
	tr.Before = func(ci *CallInfo) error {
		if !faultableKinds[ci.Kind] {
			return nil
		}
		idx := obs.calls
		obs.calls++
		obs.kindAt = append(obs.kindAt, ci.Kind)
		mode, ok := plan[idx]
		if !ok {
			return nil
		}
		obs.fired[idx] = ci.Kind + ":" + mode
		switch mode {
		case "short":
			if ci.Kind == "Write" {
				ci.ShortWrite = ci.Size / 2
			}
		case "after":
			if ci.Kind == "Close" {
				ci.FailAfter = true
			}
		}
		return fmt.Errorf("%w (call %d %s %s)", errInjected, idx, ci.Kind, mode)
	}
	eng, err := bs.NewBloomSearchEngine(c.Cfg.Build(), tr, tr)
	if err != nil {
		return nil, violf("config rejected: %v", err)
	}
	eng.Start()
	ctx := context.Background()
	next := 1
	var chans []chan error
	for si, st := range c.Steps {
		switch st.Op {
		case "ingest":
			b := &c06Batch{}
			var rows []map[string]any
			for ri, r := range st.Rows {
				id := next
				next++
				g := rowGo(withID(r, id))
				if st.Bad == ri+1 {
					g["broken"] = map[string]any{"x": []any{1, Val{K: st.BadK}.ToGo()}}
					b.bad = true
				}
				rows = append(rows, g)
				b.ids = append(b.ids, id)
			}
			ch := make(chan error, 1)
			if err := eng.IngestRows(ctx, rows, ch); err != nil {
				return nil, violf("step %d: IngestRows on a running engine: %v", si, err)
			}
			obs.batches = append(obs.batches, b)
			chans = append(chans, ch)
		case "flush":
			fctx, cancel := context.WithTimeout(ctx, 60*time.Second)
			_ = eng.Flush(fctx) // its result is the answer of whatever flush it rode on
			cancel()
		}
	}
	fctx, cancel := context.WithTimeout(ctx, 60*time.Second)
	_ = eng.Flush(fctx)
	cancel()
	for i, ch := range chans {
		select {
		case err := <-ch:
			obs.batches[i].ack, obs.batches[i].have = err, true
		case <-time.After(30 * time.Second):
			return nil, violf("batch %d never answered although Flush returned (plan %v)", i, plan)
		}
	}
	if obs.visNow, err = visibleIDs(eng); err != nil {
		return nil, violf("after the history (plan %v, fired %v): %v", plan, obs.fired, err)
	}
	sctx, cancel2 := context.WithTimeout(ctx, 60*time.Second)
	serr := eng.Stop(sctx)
	cancel2()
	if serr != nil {
		return nil, violf("Stop failed: %v", serr)
	}
	fresh, err := bs.NewBloomSearchEngine(c.Cfg.Build(), ms, ds)
	if err != nil {
		return nil, violf("config rejected: %v", err)
	}
	if obs.visNew, err = visibleIDs(fresh); err != nil {
		return nil, violf("fresh engine over the same stores (plan %v, fired %v): %v", plan, obs.fired, err)
	}
	if _, err := fresh.Merge(ctx); err != nil {
		return nil, violf("Merge on healthy stores after the history failed: %v (plan %v, fired %v)", err, plan, obs.fired)
	}
	fresh2, _ := bs.NewBloomSearchEngine(c.Cfg.Build(), ms, ds)
	if obs.visEnd, err = visibleIDs(fresh2); err != nil {
		return nil, violf("after Merge (plan %v, fired %v): %v", plan, obs.fired, err)
	}
	obs.log = tr.Calls()
	return obs, nil
}

func judgeC06Run(c c06Case, obs *c06Obs, plan map[int]string) *Violation {
	desc := fmt.Sprintf("fault plan %v fired %v", plan, obs.fired)
	views := []struct {
		name string
		m    map[int]int
	}{{"this engine, right after the history", obs.visNow}, {"a fresh engine over the same stores", obs.visNew}, {"a fresh engine after a Merge", obs.visEnd}}
	known := map[int]bool{}
	for bi, b := range obs.batches {
		for _, id := range b.ids {
			known[id] = true
		}
		if b.bad && b.ack == nil {
			return violf("batch %d contains an unmarshalable row but was acknowledged with nil (%s)", bi, desc)
		}
		for _, v := range views {
			for _, id := range b.ids {
				n := v.m[id]
				if b.ack == nil && n != 1 {
					return violf("batch %d was acknowledged with nil but its row id %d is visible %d times on %s (%s)", bi, id, n, v.name, desc)
				}
				if b.ack != nil && n != 0 && (!c.FSMeta || !cleanupFaultFired(obs)) {
					return violf("batch %d was answered with an error (%v) but its row id %d is visible %d times on %s (%s)", bi, b.ack, id, n, v.name, desc)
				}
			}
		}
	}
	for _, v := range views {
		for id := range v.m {
			if !known[id] {
				return violf("a row that was never ingested (id %d) is visible on %s (%s)", id, v.name, desc)
			}
		}
	}
	// an unmarshalable batch must not affect its neighbours on a healthy run
	if len(obs.fired) == 0 {
		for bi, b := range obs.batches {
			if !b.bad && b.ack != nil {
				return violf("fault-free run: batch %d of marshalable rows was answered with an error: %v", bi, b.ack)
			}
		}
	}
	return nil
}

// cleanupFaultFired: with FileSystemDataStore as the MetaStore a flush is
// published by the writer's Close and un-published by Abort/TombstoneFile; the
// "error means absent" clause is judged there too, except when one of those
// cleanup calls itself was made to fail (then nothing atomic is left to rely on).
func cleanupFaultFired(obs *c06Obs) bool {
	for _, f := range obs.fired {
		if len(f) >= 5 && (f[:5] == "Abort" || (len(f) >= 9 && f[:9] == "Tombstone")) {
			return true
		}
	}
	return false
}

// genC06Bad: histories aimed at batch atomicity on rejection — partitioned
// engines, multi-partition batches, limits mostly out of reach so that earlier
// good batches are still buffered when a batch with an unmarshalable row arrives.
func genC06Bad() *rapid.Generator[c06Case] {
	return rapid.Custom(func(t *rapid.T) c06Case {
		c := c06Case{Data: pick(t, "data", []string{"mem", "mem-noabort", "mem"})}
		c.Cfg = drawCfg(t, "default", numFieldPool, true)
		c.Cfg.BufTimeMs = 0
		c.Cfg.Partition = pick(t, "part", []string{"idmod3", "field", "idmod3", "const", "none"})
		c.Cfg.BufRows = pick(t, "bufrows", []int{1000, 1000, 7, 12})
		c.Cfg.RGRows = pick(t, "rgrows", []int{10000, 10000, 5})
		c.Cfg.BufBytes = pick(t, "bufbytes", []int{1 << 20, 1 << 20, 3000})
		c.Cfg.RGBytes = 10 << 20
		spec := RowSpec{PartField: partFieldName, NumFields: numFieldPool}
		n := rapid.IntRange(3, 9).Draw(t, "nsteps")
		for i := 0; i < n; i++ {
			if i > 0 && chance(t, "flush", 15) {
				c.Steps = append(c.Steps, c06Step{Op: "flush"})
				continue
			}
			k := rapid.IntRange(2, 6).Draw(t, "nrows")
			st := c06Step{Op: "ingest"}
			for j := 0; j < k; j++ {
				st.Rows = append(st.Rows, drawRow(t, spec))
			}
			if i > 0 && chance(t, "bad", 50) {
				st.Bad = 1 + unif(t, "badidx", k)
				st.BadK = pick(t, "badkind", []string{"badchan", "badnan", "badfunc", "badinf"})
			}
			c.Steps = append(c.Steps, st)
		}
		return c
	})
}

// runC06Bad judges the fault-free run of a rejection-heavy history (no fault
// enumeration: the unmarshalable row is the fault).
func runC06Bad(c c06Case) *Violation {
	obs, v := runC06Once(c, nil)
	if v != nil {
		return v
	}
	if obs == nil {
		return nil
	}
	Ev.Eval(1)
	if v := judgeC06Run(c, obs, nil); v != nil {
		return v
	}
	bad, good := 0, 0
	for _, b := range obs.batches {
		if b.bad {
			bad++
		} else {
			good++
		}
	}
	Ev.Class("badbatch:partition=" + c.Cfg.Partition)
	if bad > 0 && good > 0 && c.Cfg.Partition != "none" && c.Cfg.Partition != "const" {
		Ev.NonTrivial("badbatch|" + hashStrings(jsonKey(c.Steps), jsonKey(c.Cfg), c.Data))
		if Ev.WantSample() {
			Ev.Sample(map[string]any{"badbatch_steps": len(c.Steps), "partition": c.Cfg.Partition, "rejected_batches": bad, "good_batches": good})
		}
	}
	return nil
}

func runC06(c c06Case) *Violation {
	base, v := runC06Once(c, nil)
	if v != nil {
		return v
	}
	if base == nil {
		return nil
	}
	Ev.Eval(1)
	if v := judgeC06Run(c, base, nil); v != nil {
		return v
	}
	n := base.calls
	Ev.ClassN("store-calls-numbered", n)
	kinds := map[string]bool{}
	var last *c06Obs
	tryPlan := func(plan map[int]string) *Violation {
		obs, v := runC06Once(c, plan)
		last = obs
		if v != nil {
			return v
		}
		if obs == nil {
			return nil
		}
		Ev.Eval(1)
		if v := judgeC06Run(c, obs, plan); v != nil {
			return v
		}
		nilAck, errAck := 0, 0
		for _, b := range obs.batches {
			if b.ack == nil {
				nilAck++
			} else {
				errAck++
			}
		}
		for _, f := range obs.fired {
			kinds[f] = true
			Ev.Class("fault:" + f)
		}
		if len(obs.fired) > 0 && nilAck > 0 && errAck > 0 {
			keys := make([]string, 0, len(obs.fired))
			for i, f := range obs.fired {
				keys = append(keys, fmt.Sprintf("%d:%s", i, f))
			}
			sort.Strings(keys)
			Ev.NonTrivial(hashStrings(jsonKey(c.Steps), jsonKey(c.Cfg), c.Data, fmt.Sprint(keys)))
			if Ev.WantSample() {
				Ev.Sample(map[string]any{"steps": len(c.Steps), "data": c.Data, "fired": keys, "nil_acked_batches": nilAck, "error_acked_batches": errAck})
			}
		}
		return nil
	}
	for pos := 0; pos < n; pos++ {
		modes := []string{"before"}
		// calls that have a second failure shape
		switch base.kindAt[pos] {
		case "Write":
			modes = append(modes, "short")
		case "Close":
			modes = append(modes, "after")
		}
		for _, mode := range modes {
			if v := tryPlan(map[int]string{pos: mode}); v != nil {
				return v
			}
			// second level: the cleanup calls this failure provokes (Abort,
			// TombstoneFile) fail too
			cur := last
			if cur == nil {
				continue
			}
			provoked := 0
			for q := pos + 1; q < len(cur.kindAt) && provoked < 2; q++ {
				if k := cur.kindAt[q]; k == "Abort" || k == "Tombstone" {
					provoked++
					if v := tryPlan(map[int]string{pos: mode, q: "before"}); v != nil {
						return v
					}
				}
			}
		}
	}
	for _, p := range c.Pairs {
		if n < 2 {
			break
		}
		i, j := p[0]*n/1000, p[1]*n/1000
		if i == j {
			j = (j + 1) % n
		}
		if v := tryPlan(map[int]string{i: "before", j: "before"}); v != nil {
			return v
		}
	}
	Ev.Set("exhaustive_within_history", true)
	return nil
}

func TestC06(t *testing.T) {
	Ev.Level = "fault_enumeration"
	Ev.Rule = "case = generated sequential ingest history (1-4 row batches, some with an unmarshalable row nested inside; explicit and limit-triggered flushes; partitions) over MemDataStore with/without Abort or a FileSystemDataStore, with MemoryMetaStore (atomic Update) or the FileSystemDataStore itself as MetaStore (publish at Close; error => absent is judged there unless an Abort/TombstoneFile call was itself made to fail), all behind the harness's tracing wrapper. The fault-free run numbers every CreateFile/Write/Close/Abort/Update/TombstoneFile call; the history is then re-run ONCE PER POSITION with a failure there in three shapes (fail before the call; short write + error; Close that publishes and then reports failure), plus generated position pairs. Oracle after every run: nil ack => each row visible exactly once on this engine, on a fresh engine, and after a Merge; error ack => none of its rows visible in any of the three; never a row that was not ingested; unmarshalable batch => error ack and neighbours unaffected. badbatch phase (no injected faults): partitioned engines, 2-6 row batches over several partitions, limits mostly out of reach so earlier batches are still buffered, half of the later batches carry an unmarshalable row at a generated position; same oracle. deadline phase: filesystem store as both stores, a ctx-honouring gate inside one store call of a flush (Update / Close / Write / CreateFile / TombstoneFile) while a Stop deadline of 60-120 ms expires; afterwards a fresh engine over the directory: error-acked rows absent, nil-acked rows present exactly once. evaluations = executions of a history under one fault plan. Non-trivial: the fault fired and the same run has >=1 nil-acked and >=1 error-acked batch; distinct by hash(history, config, store, fired faults)."
	Ev.Assumptions = []string{"MetaStore.Update is atomic (MemoryMetaStore), as the property states", "faults are one-shot: the store is healthy again after the injected failure"}
	runChecks(t, "faults", 25, 600, genC06(), runC06)
	runChecks(t, "badbatch", 400, 12000, genC06Bad(), runC06Bad)
	runChecks(t, "deadline", 60, 2000, genC06Deadline(), runC06Deadline)
}

package harness

// C20 — the Results cursor always reaches a correct terminal state.
// C21 — queries release every resource they acquire.
// C22 — query I/O stays within MaxQueryConcurrency; stalled queries starve no one.
// C23 (fault phase) — statistics under failures and early termination.
// All four judge generated cursor scripts (cursor_case.go).

import (
	"context"
	"errors"
	"fmt"
	"strings"
	"sync"
	"sync/atomic"
	"testing"
	"time"

	bs "github.com/danthegoodman1/bloomsearch"
	"pgregory.net/rapid"
)

func earlyTerminated(o *CursorObs) bool { return o.ClosedExplicitly || o.Cancelled }

func judgeC20(c CursorCase, o *CursorObs) (*Violation, bool) {
	if o.QueryErr != nil {
		return violf("valid query rejected: %v", o.QueryErr), false
	}
	if o.Timeout != "" {
		return violf("%s (script %s)", o.Timeout, jsonKey(c.Steps)), true
	}
	if !o.StaysFalse {
		return violf("after Next returned false a further Next returned true or Row() was non-nil"), false
	}
	for _, err := range o.CloseErrs {
		if err != nil {
			return violf("Close returned %v (must return nil)", err), false
		}
	}
	if o.LateCloseChangedErr != "" {
		return violf("Close changed an already decided terminal state: %s", o.LateCloseChangedErr), false
	}
	if o.RowsAfterSyncTermination > 0 {
		return violf("Next handed out %d row(s) after the consumer's own Close / cancel had completed (termination is terminal: undelivered rows are dropped)", o.RowsAfterSyncTermination), false
	}
	if o.FalseLatency > 5*time.Second {
		return violf("Next returned false %v after Close/cancel", o.FalseLatency), true
	}
	err := o.Err
	isCtx := err != nil && errors.Is(err, context.Canceled)
	if !earlyTerminated(o) {
		// clean run: nil iff nothing failed; otherwise every recorded failure is reported
		if o.WorldBad && err == nil {
			return violf("the query ran to completion over a file with a malformed block (row data ending in a truncated length prefix) and returned %d rows, but Err()=nil: the scan failure was not reported", len(o.Rows)), false
		}
		if len(o.Fired) == 0 && o.Corrupted == 0 && !o.WorldBad && err != nil {
			return violf("clean run without any store failure finished with Err=%v", err), false
		}
		for _, f := range o.Fired {
			if err == nil || !strings.Contains(err.Error(), f) {
				return violf("store failure %s fired during a query that ran to completion, but Err()=%v does not report it (fired: %v)", f, err, o.Fired), false
			}
		}
		if err != nil && o.Corrupted == 0 && !o.WorldBad && !errors.Is(err, errInjected) {
			return violf("Err()=%v does not wrap the store's error (errors.Is fails)", err), false
		}
		return nil, false
	}
	if o.CancelBeforeFinalNext {
		if !isCtx {
			return violf("the Query context was cancelled before the final Next began (no Close), but Err()=%v does not wrap context.Canceled", err), false
		}
		return nil, false
	}
	// After a deliberate Close the property only asks that Err reports what was
	// recorded. A ctx-honouring store may answer the teardown's cancellation by
	// yielding the context error from its iterator, which the engine records
	// like any other iteration failure — so a ctx-wrapping error is acceptable
	// here too (the harness's gated iterator does exactly that).
	// a failure that fired well before a deliberate Close (no cancel) was
	// recorded before the terminal state was decided: Close must not lose it
	if o.ClosedExplicitly && !o.Cancelled && !o.TermAt.IsZero() {
		for i, f := range o.Fired {
			if i < len(o.FiredAt) && o.TermAt.Sub(o.FiredAt[i]) > 50*time.Millisecond {
				if (err == nil || !strings.Contains(err.Error(), f)) && o.TermAt.Sub(o.FiredAt[i]) > 120*time.Millisecond {
					// more than 120 ms between the store call's failure and the Close:
					// no scheduling allowance explains a failure that is not recorded yet
					return violf("store failure %s fired %v before the deliberate Close, but after Close Err()=%v does not report it", f, o.TermAt.Sub(o.FiredAt[i]).Round(time.Millisecond), err), false
				}
				if err == nil || !strings.Contains(err.Error(), f) {
					// the 50 ms are a scheduling allowance for the engine goroutine that
					// records the failure: a timing verdict, confirmed by re-execution
					return violf("store failure %s fired %v before the deliberate Close, but after Close Err()=%v does not report it", f, o.TermAt.Sub(o.FiredAt[i]).Round(time.Millisecond), err), true
				}
			}
		}
	}
	// racing cancel/Close: nil, recorded failures or the ctx error are all acceptable
	// a scan that failed in the middle of a block well before a deliberate Close:
	// the consumer had stopped reading for >= 300 ms, Stats shows the malformed
	// block scanned to its end, so its failure was recorded before the terminal
	// state was decided and Close must report it
	if o.WorldBad && o.ClosedExplicitly && !o.Cancelled && err == nil {
		stalled := 0
		for _, st := range c.Steps {
			if st.Op == "stall" {
				stalled += st.Ms
			}
		}
		if stalled >= 300 {
			for _, e := range o.Stats.BlockStats {
				if string(e.FilePointer) == o.BadBlock.File && e.BlockOffset == o.BadBlock.Off && !e.BloomFilterSkipped && e.RowsProcessed >= int64(o.BadRows) {
					return violf("the malformed block was scanned to its end (Stats: %d rows processed) while the consumer had stopped reading for %d ms before its deliberate Close, but Err()=nil after Close: the scan failure recorded before Close was lost", e.RowsProcessed, stalled), true
				}
			}
		}
	}
	if err != nil && !isCtx && o.Corrupted+o.CorruptedLate == 0 && !o.WorldBad && !errors.Is(err, errInjected) {
		return violf("terminal Err()=%v is neither nil, a recorded store failure, nor the context error", err), false
	}
	return nil, false
}

func cursorNonTrivial(c CursorCase, o *CursorObs) bool {
	total := c.World.Files * c.World.Blocks * c.World.Rows
	mid := earlyTerminated(o) && len(o.Rows) > 0 && len(o.Rows) < total
	return mid || len(o.Fired) > 0
}

func runCursorProperty(judge func(CursorCase, *CursorObs, *Trace, *bs.BloomSearchEngine) (*Violation, bool)) func(CursorCase) *Violation {
	return func(c CursorCase) *Violation {
		Ev.Eval(1)
		if c.Procs > 0 {
			prev := setProcs(c.Procs)
			defer setProcs(prev)
		}
		once := func() (*CursorObs, *Violation, bool) {
			o, tr, eng, v := runCursorCase(c)
			if v != nil || o == nil {
				return o, v, false
			}
			v, timing := judge(c, o, tr, eng)
			return o, v, timing
		}
		o, v, timing := once()
		for i := 1; i < c.Repeat && v == nil; i++ {
			o, v, timing = once()
		}
		if v != nil && timing {
			for i := 0; i < 2; i++ {
				if _, v2, _ := once(); v2 == nil {
					Ev.Class("timing-verdict-not-reproduced(discarded)")
					return nil
				}
			}
		}
		if v != nil {
			v.Msg += "\ncase: " + shortJSON(c, 1200)
			return v
		}
		if o == nil {
			return nil
		}
		Ev.Class("lifecycle=" + c.Lifecycle)
		if len(o.Fired) > 0 {
			Ev.Class("fault-fired")
		}
		if earlyTerminated(o) {
			Ev.Class("terminated-early")
		}
		if c.IterGate >= 0 {
			Ev.Class("gated-metastore-iteration")
		}
		if o.WorldBad {
			Ev.Class("world-with-malformed-block(mid-scan failure)")
		}
		if cursorNonTrivial(c, o) {
			Ev.NonTrivial(jsonKey(c))
			if Ev.WantSample() {
				Ev.Sample(map[string]any{"case": c, "rows_returned": len(o.Rows), "err": fmt.Sprint(o.Err), "faults_fired": o.Fired})
			}
		}
		return nil
	}
}

func TestC20(t *testing.T) {
	Ev.Rule = "case = dataset (1-6 files x 1-6 blocks x 1/10/63/70/200 rows: several 64-row batches per block in the larger ones), MaxQueryConcurrency 1..1000, query kind (match-all / token / one file / one block / nothing), engine never started / started / stopped, optional read latency, 0-3 store failures (OpenFile / Read / Seek / iterator start / iterator yield at generated positions, each with its own sentinel), optional ctx-honouring gate inside the MetaStore iteration, and a consumer script (drain; Next xk then Close or cancel; Close or cancel from another goroutine after 0-10 ms; stall; Close before the first row; 60-90 single-block files on a budget of 1-3 with a consumer that stops reading before Close/cancel (the pipeline backs up to the candidate-pulling stage); a world with a malformed block whose scan fails after its rows were matched (drained; or the consumer stops reading for 300-400 ms and then closes; or cancels); a slow walk through buffered rows of a finished pipeline while another goroutine calls Close 150-220 ms in (repeated 12 times); 2-4 goroutines calling Close at the same moment mid-stream with 0.5-5 ms read latency; blocks of exactly five 64-row batches on a budget of 1-3: after a stall every worker is parked on the full row buffer, the consumer reads up to the first row of one more batch and calls Close/cancel at once, repeated 12 times). Oracle: Next returns false (20 s harness limit, 5 s after Close/cancel) and stays false; every Close returns nil, three concurrent late Closes do not change Err; clean runs: Err nil iff no failure fired, else mentions every fired sentinel and wraps the store error; cancel finished before the final Next began (no Close) => errors.Is(Err, context.Canceled); deliberate Close => never the ctx error; racing cases accept nil / recorded failures / ctx error. Non-trivial: termination landed mid-stream (0 < rows < total) or a failure fired; distinct by case."
	Ev.Assumptions = []string{"failures that fire after the query was terminated may be dropped (documented as teardown noise)"}
	runChecks(t, "scripts", 400, 10000, genCursorCase(true), runCursorProperty(func(c CursorCase, o *CursorObs, _ *Trace, _ *bs.BloomSearchEngine) (*Violation, bool) {
		return judgeC20(c, o)
	}))
}

// ---------------------------------------------------------------- C21

func judgeC21(c CursorCase, o *CursorObs, tr *Trace, eng *bs.BloomSearchEngine) (*Violation, bool) {
	if o.QueryErr != nil || o.Timeout != "" {
		return nil, false // C20's subject
	}
	if o.IterOpenAtFalse != 0 {
		return violf("when Next returned false the MetaStore iterator had not returned (%d open)", o.IterOpenAtFalse), false
	}
	for _, h := range o.HandlesAtFalse {
		if h.Closes == 0 {
			return violf("when Next returned false, read handle #%d on %s (opened by this query) had not been closed", h.ID, h.Ptr), false
		}
	}
	for _, sn := range o.CloseSnaps {
		if sn.IterOpen != 0 {
			return violf("when %s returned the MetaStore iterator had not returned (%d open)", sn.Who, sn.IterOpen), false
		}
		for _, h := range sn.Handles {
			if h.Closes == 0 {
				return violf("when %s returned, read handle #%d on %s (opened by this query) had not been closed (%d store reads still in progress)", sn.Who, h.ID, h.Ptr, sn.Reads), false
			}
		}
	}
	for _, h := range o.Handles {
		if h.Closes != 1 {
			return violf("read handle #%d on %s was closed %d times (want exactly once)", h.ID, h.Ptr, h.Closes), false
		}
		if h.UseAfter != 0 {
			return violf("read handle #%d on %s was used %d times after being closed", h.ID, h.Ptr, h.UseAfter), false
		}
		if h.Concurrent != 0 {
			return violf("read handle #%d on %s was used by two goroutines at once (%d overlaps)", h.ID, h.Ptr, h.Concurrent), false
		}
	}
	// goroutines started for the query drain
	deadline := time.Now().Add(2 * time.Second)
	for {
		n, sample := queryGoroutines()
		if n == 0 {
			break
		}
		if time.Now().After(deadline) {
			return violf("%d goroutine(s) started for the query are still running 2s after Next returned false / Close returned:\n%s", n, sample), true
		}
		time.Sleep(time.Millisecond)
	}
	// the full concurrency budget is available again
	if v, timing := recheckBudget(tr, eng, c.World, c.QConc); v != nil {
		return v, timing
	}
	return nil, false
}

// recheckBudget: after the queries of a case have ended, a follow-up match-all
// query with a read barrier must reach MaxQueryConcurrency simultaneous reads
// (when the dataset has that many blocks): every slot was given back.
func recheckBudget(tr *Trace, eng *bs.BloomSearchEngine, world CursorWorldSpec, qconc int) (*Violation, bool) {
	nblocks := world.Files * world.Blocks
	if qconc <= 8 && nblocks >= qconc && qconc >= 1 {
		target := int32(qconc)
		best := int32(0)
		for attempt := 0; attempt < 3 && best < target; attempt++ {
			var inside, peak int32
			tr.ResetLog()
			tr.Before = func(ci *CallInfo) error {
				if ci.Kind != "Read" {
					return nil
				}
				n := atomic.AddInt32(&inside, 1)
				for {
					p := atomic.LoadInt32(&peak)
					if n <= p || atomic.CompareAndSwapInt32(&peak, p, n) {
						break
					}
				}
				// barrier: wait (bounded) for the other readers the budget allows
				dl := time.Now().Add(150 * time.Millisecond)
				for atomic.LoadInt32(&peak) < target && time.Now().Before(dl) {
					time.Sleep(200 * time.Microsecond)
				}
				atomic.AddInt32(&inside, -1)
				return nil
			}
			res, err := eng.Query(context.Background(), nil)
			if err != nil {
				return violf("follow-up query rejected: %v", err), false
			}
			type fin struct{}
			donec := make(chan fin, 1)
			go func() {
				for res.Next() {
				}
				res.Close()
				donec <- fin{}
			}()
			select {
			case <-donec:
			case <-time.After(20 * time.Second):
				tr.Before = nil
				return violf("after the queries ended, a follow-up match-all query did not finish within 20s with MaxQueryConcurrency=%d (it reached %d simultaneous reads): the query budget was not given back", qconc, atomic.LoadInt32(&peak)), true
			}
			if p := atomic.LoadInt32(&peak); p > best {
				best = p
			}
		}
		tr.Before = nil
		if best < target {
			return violf("after the query ended, a follow-up query over %d blocks reached only %d simultaneous reads with MaxQueryConcurrency=%d: part of the query budget was not released", nblocks, best, qconc), true
		}
		Ev.Class("budget-rechecked")
	}
	return nil, false
}

func TestC21(t *testing.T) {
	Ev.Rule = "same generated cursor scripts as C20 (datasets up to 36 blocks, early Close/cancel, read/open/iterator failures, gated iteration, slow consumers). Oracle from the harness's handle-accounting store wrapper: when Next returns false, and at the moment EACH individual Close call returns (sequential, asynchronous, or one of several concurrent ones), every handle the query opened has been closed and the iterator has returned; finally every handle closed exactly once, never used after close, never used by two goroutines at once; the MetaStore iterator has returned; goroutines with bloomsearch query frames (stack inspection) are gone within a 2 s settle window; then a follow-up match-all query with a read barrier must reach MaxQueryConcurrency simultaneous reads (when the dataset has that many blocks). contended phase: 2-6 queries sharing one engine with MaxQueryConcurrency 1-3, slow reads and slow handle Close calls, each query drained / closed / cancelled / stalled-then-closed at its own moment, optionally one failing read or one read handle whose Close reports an error: same accounting when all have ended, then the budget recheck. Non-trivial: early termination mid-stream or a failure fired; distinct by case."
	Ev.Assumptions = []string{"'used by two goroutines at once' is detected when the overlap actually happens in a run", "goroutines are attributed to queries by their stack frames"}
	runChecks(t, "scripts", 400, 10000, genCursorCase(true), runCursorProperty(judgeC21))
	runChecks(t, "contended", 150, 4000, genC21Contended(), runC21Contended)
}

// ---------------------------------------------------------------- C23 fault phase

func judgeC23Faults(c CursorCase, o *CursorObs) *Violation {
	if o.QueryErr != nil || o.Timeout != "" {
		return nil
	}
	w, err := getCursorWorld(c.World)
	if err != nil {
		return nil
	}
	blocks := map[blockID]*BlockInfo{}
	perFile := map[string]int{}
	for _, f := range w.files {
		perFile[f.Ptr] = len(f.Blocks)
		for _, b := range f.Blocks {
			blocks[blockID{f.Ptr, b.Meta.RowDataOffset}] = b
		}
	}
	st := o.StatsAtFalse
	seen := map[blockID]bs.BlockStats{}
	listed := map[string]int{}
	var sumRows, sumBytes int64
	proc, skip := 0, 0
	for _, e := range st.BlockStats {
		id := blockID{string(e.FilePointer), e.BlockOffset}
		if _, dup := seen[id]; dup {
			return violf("Stats lists block %v twice (faults fired: %v, early termination: %v)", id, o.Fired, earlyTerminated(o))
		}
		seen[id] = e
		if blocks[id] == nil {
			return violf("Stats lists a block %v that does not exist", id)
		}
		listed[id.File]++
		if e.BloomFilterSkipped {
			skip++
			if e.RowsProcessed != 0 || e.BytesProcessed != 0 {
				return violf("bloom-skipped block %v reports rows/bytes processed %d/%d", id, e.RowsProcessed, e.BytesProcessed)
			}
		} else {
			proc++
		}
		if e.RowsProcessed > int64(blocks[id].Meta.Rows) {
			return violf("block %v reports RowsProcessed=%d > its %d rows", id, e.RowsProcessed, blocks[id].Meta.Rows)
		}
		sumRows += e.RowsProcessed
		sumBytes += e.BytesProcessed
	}
	if st.BlocksProcessed != proc || st.BlocksSkipped != skip || st.RowsScanned != sumRows || st.BytesScanned != sumBytes {
		return violf("totals (processed %d skipped %d rows %d bytes %d) differ from the per-block sums (%d %d %d %d)", st.BlocksProcessed, st.BlocksSkipped, st.RowsScanned, st.BytesScanned, proc, skip, sumRows, sumBytes)
	}
	// every block that contained a returned row is listed as processed
	for _, id := range o.Rows {
		b, ok := w.where[id]
		if !ok {
			continue
		}
		e, ok := seen[b]
		if !ok || e.BloomFilterSkipped {
			return violf("row id %d was returned from block %v, which Stats does not list as processed (listed=%v; early termination=%v, faults %v)", id, b, ok, earlyTerminated(o), o.Fired)
		}
	}
	if !earlyTerminated(o) {
		for f, n := range listed {
			if n != perFile[f] {
				return violf("query ran to completion (faults fired: %v) but Stats lists %d of the %d blocks of file %s (must be all or none)", o.Fired, n, perFile[f], f)
			}
		}
		if len(o.Fired) == 0 && o.Corrupted == 0 && !o.WorldBad && st.RowsMatched != int64(len(o.Rows)) {
			return violf("clean completion: RowsMatched=%d, rows returned=%d", st.RowsMatched, len(o.Rows))
		}
	}
	return nil
}

func c23FaultPhaseImpl(t *testing.T) {
	runChecks(t, "faults", 300, 8000, genCursorCase(true), runCursorProperty(func(c CursorCase, o *CursorObs, _ *Trace, _ *bs.BloomSearchEngine) (*Violation, bool) {
		return judgeC23Faults(c, o), false
	}))
}

// ---------------------------------------------------------------- C22

type c22Query struct {
	Kind    string `json:"kind"`
	StallAt int    `json:"stall_at"` // -1: drain; else stop reading after this many rows (stalled consumer)
}

type c22Case struct {
	World     CursorWorldSpec `json:"world"`
	QConc     int             `json:"qconc"`
	LatencyUs int             `json:"latency_us"`
	Queries   []c22Query      `json:"queries"`
	Procs     int             `json:"procs,omitempty"`
}

func genC22() *rapid.Generator[c22Case] {
	return rapid.Custom(func(t *rapid.T) c22Case {
		c := c22Case{
			World:     CursorWorldSpec{Files: pick(t, "files", []int{2, 4, 6, 12}), Blocks: pick(t, "blocks", []int{1, 3, 6}), Rows: pick(t, "rows", []int{1, 10, 63, 70, 300})},
			QConc:     pick(t, "qconc", []int{1, 2, 3, 8}),
			LatencyUs: pick(t, "lat", []int{200, 1000, 5000}),
			Procs:     pick(t, "procs", []int{0, 2, 4}),
		}
		n := rapid.IntRange(1, 6).Draw(t, "nq")
		for i := 0; i < n; i++ {
			q := c22Query{Kind: pick(t, "kind", []string{"all", "token", "file0", "all"}), StallAt: -1}
			if chance(t, "stall", 35) {
				q.StallAt = rapid.IntRange(0, 5).Draw(t, "stallat")
			}
			c.Queries = append(c.Queries, q)
		}
		if chance(t, "bigregion", 15) {
			// a file whose block filter region spans several 4 MiB chunk reads,
			// queried with bloom conditions by 2-4 queries at once on a small budget:
			// every chunk read of every filter pass is a read under the bound
			c.World = CursorWorldSpec{Files: 1, Blocks: 6, Rows: 10, Big: true}
			c.QConc = pick(t, "bigqconc", []int{1, 1, 2})
			c.LatencyUs = pick(t, "biglat", []int{1000, 3000})
			c.Queries = nil
			for i := rapid.IntRange(2, 4).Draw(t, "bignq"); i > 0; i-- {
				c.Queries = append(c.Queries, c22Query{Kind: pick(t, "bigkind", []string{"token", "token", "only00"}), StallAt: -1})
			}
		}
		return c
	})
}

func runC22Once(c c22Case) (*Violation, bool, bool) {
	if c.Procs > 0 {
		prev := setProcs(c.Procs)
		defer setProcs(prev)
	}
	w, err := getCursorWorld(c.World)
	if err != nil {
		infra("cursor world: %v", err)
		return nil, false, false
	}
	tr := NewTrace(w.ds, w.ms)
	tr.Before = func(ci *CallInfo) error {
		switch ci.Kind {
		case "OpenFile", "Read", "Seek":
			time.Sleep(time.Duration(c.LatencyUs) * time.Microsecond)
		}
		return nil
	}
	cfg := bs.DefaultBloomSearchEngineConfig()
	cfg.MaxQueryConcurrency = c.QConc
	eng, err := bs.NewBloomSearchEngine(cfg, tr, tr)
	if err != nil {
		return violf("config rejected: %v", err), false, false
	}
	total := c.World.Files * c.World.Blocks * c.World.Rows
	var wg sync.WaitGroup
	var mu sync.Mutex
	var viol *Violation
	var stalled []*bs.Results
	anyStalled := false
	type outcome struct {
		rows int
		err  error
	}
	results := make([]outcome, len(c.Queries))
	for qi, q := range c.Queries {
		res, err := eng.Query(context.Background(), cursorQuery(q.Kind))
		if err != nil {
			return violf("query rejected: %v", err), false, false
		}
		if q.StallAt >= 0 && total > 256+q.StallAt+64 && q.Kind != "file0" {
			// a stalled consumer: read a few rows, then stop reading (closed at the end)
			anyStalled = true
			for i := 0; i < q.StallAt; i++ {
				if !res.Next() {
					break
				}
			}
			stalled = append(stalled, res)
			continue
		}
		wg.Add(1)
		go func(qi int, res *bs.Results) {
			defer wg.Done()
			n := 0
			for res.Next() {
				n++
			}
			mu.Lock()
			results[qi] = outcome{n, res.Err()}
			mu.Unlock()
			res.Close()
		}(qi, res)
	}
	done := make(chan struct{})
	go func() { wg.Wait(); close(done) }()
	timing := false
	select {
	case <-done:
	case <-time.After(12 * time.Second):
		viol = violf("with %d stalled consumer(s) holding undelivered rows, the other queries did not complete within 12s (MaxQueryConcurrency=%d, %d files x %d blocks x %d rows)", len(stalled), c.QConc, c.World.Files, c.World.Blocks, c.World.Rows)
		timing = true
	}
	for _, r := range stalled {
		r.Close()
	}
	if viol == nil {
		<-done
	}
	if viol != nil {
		return viol, timing, false
	}
	for qi, r := range results {
		if c.Queries[qi].StallAt >= 0 && r.rows == 0 && r.err == nil {
			continue
		}
		if r.err != nil {
			return violf("query %d finished with Err=%v on healthy stores", qi, r.err), false, false
		}
	}
	peak := atomic.LoadInt32(&tr.MaxReads)
	if int(peak) > c.QConc {
		return violf("%d DataStore reads (OpenFile/Seek/Read on query handles) were in progress at once with MaxQueryConcurrency=%d (%d concurrent queries, %d files x %d blocks x %d rows)", peak, c.QConc, len(c.Queries), c.World.Files, c.World.Blocks, c.World.Rows), false, false
	}
	jobs := c.World.Files * c.World.Blocks
	nt := jobs > c.QConc && int(peak) == c.QConc
	if anyStalled {
		Ev.Class("with-stalled-consumer")
	}
	return nil, false, nt
}

func runC22(c c22Case) *Violation {
	Ev.Eval(1)
	v, timing, nt := runC22Once(c)
	if v != nil && timing {
		for i := 0; i < 2; i++ {
			if v2, _, _ := runC22Once(c); v2 == nil {
				Ev.Class("timing-verdict-not-reproduced(discarded)")
				return nil
			}
		}
	}
	if v != nil {
		return v
	}
	if nt {
		Ev.Class("gauge-reached-the-limit")
		Ev.NonTrivial(jsonKey(c))
		if Ev.WantSample() {
			Ev.Sample(c)
		}
	}
	return nil
}

func TestC22(t *testing.T) {
	Ev.Rule = "case = 1-6 queries started together on one engine (match-all / token / one-file), MaxQueryConcurrency in {1,2,3,8}, datasets of 2-12 files x 1-6 blocks x 1-300 rows (15%: one file whose block filter region spans several 4 MiB chunks, queried with bloom conditions), 0.2-5 ms latency on every OpenFile/Seek/Read so reads overlap, some consumers stalled (they stop reading while >256 rows are pending and are only closed at the end). Oracle: the harness's gauge of in-progress OpenFile/Seek/Read calls on query handles never exceeds MaxQueryConcurrency; every non-stalled query completes with Err nil within 12 s (confirmed by two re-executions). Non-trivial: more block jobs than MaxQueryConcurrency and the gauge reached the limit; distinct by case."
	Ev.Assumptions = []string{"the gauge counts OpenFile, Seek and Read in progress on handles opened through the query's DataStore"}
	runChecks(t, "concurrent", 150, 12000, genC22(), runC22)
}

var _ = rapid.Bool

package harness

// Typed row values. Generated rows are trees of Val, a JSON-serialisable tagged
// union that converts to the exact Go values that are handed to IngestRows
// (so a replay file reproduces the Go types, not just the JSON).

import (
	"encoding/json"
	"fmt"
	"math"
	"math/big"
	"strconv"
	"time"
)

type Val struct {
	K string `json:"k"`           // kind
	B bool   `json:"b,omitempty"` // bool payload
	S string `json:"s,omitempty"` // string / json.Number / raw JSON payload
	I int64  `json:"i,omitempty"` // signed integer payload
	U uint64 `json:"u,omitempty"` // unsigned integer payload
	F string `json:"f,omitempty"` // float payload, strconv 'g' -1 (parses back exactly; NaN/+Inf/-Inf)
	A []Val  `json:"a,omitempty"` // array elements
	O []KV   `json:"o,omitempty"` // object members in order (generators keep keys distinct)
}

type KV struct {
	K string `json:"k"`
	V Val    `json:"v"`
}

// Named numeric types (property C04 explicitly includes them).
type NamedInt32 int32
type NamedUint16 uint16
type NamedFloat64 float64
type NamedFloat32 float32
type NamedInt int

type rowStruct struct {
	Name  string         `json:"name"`
	Count int            `json:"count,omitempty"`
	Tags  []string       `json:"tags"`
	Inner map[string]any `json:"inner.x"`
	skip  int
}

func fstr(f float64) string { return strconv.FormatFloat(f, 'g', -1, 64) }

func (v Val) float() float64 {
	f, err := strconv.ParseFloat(v.F, 64)
	if err != nil {
		return math.NaN()
	}
	return f
}

func VNull() Val            { return Val{K: "null"} }
func VBool(b bool) Val      { return Val{K: "bool", B: b} }
func VStr(s string) Val     { return Val{K: "str", S: s} }
func VInt(i int64) Val      { return Val{K: "int", I: i} }
func VF64(f float64) Val    { return Val{K: "float64", F: fstr(f)} }
func VArr(a ...Val) Val     { return Val{K: "arr", A: a} }
func VObj(kv ...KV) Val     { return Val{K: "obj", O: kv} }
func VRaw(s string) Val     { return Val{K: "raw", S: s} }
func VJNum(s string) Val    { return Val{K: "jnum", S: s} }
func VKind(k string) Val    { return Val{K: k} }
func kv(k string, v Val) KV { return KV{K: k, V: v} }

var signedKinds = []string{"int", "int8", "int16", "int32", "int64", "dur", "nint32", "nint"}
var unsignedKinds = []string{"uint", "uint8", "uint16", "uint32", "uint64", "uintptr", "nuint16"}
var floatKinds = []string{"float32", "float64", "nfloat64", "nfloat32"}

func isSignedKind(k string) bool   { return inList(k, signedKinds) }
func isUnsignedKind(k string) bool { return inList(k, unsignedKinds) }
func isFloatKind(k string) bool    { return inList(k, floatKinds) }
func isNumericKind(k string) bool {
	return isSignedKind(k) || isUnsignedKind(k) || isFloatKind(k)
}
func isNamedKind(k string) bool {
	switch k {
	case "dur", "nint32", "nint", "uintptr", "nuint16", "nfloat64", "nfloat32":
		return true
	}
	return false
}

func inList(k string, l []string) bool {
	for _, x := range l {
		if x == k {
			return true
		}
	}
	return false
}

// signedRange / unsignedMax give each kind's representable range so generators
// can clamp a drawn magnitude into the kind.
func signedRange(k string) (int64, int64) {
	switch k {
	case "int8":
		return math.MinInt8, math.MaxInt8
	case "int16":
		return math.MinInt16, math.MaxInt16
	case "int32", "nint32":
		return math.MinInt32, math.MaxInt32
	}
	return math.MinInt64, math.MaxInt64
}

func unsignedMax(k string) uint64 {
	switch k {
	case "uint8":
		return math.MaxUint8
	case "uint16", "nuint16":
		return math.MaxUint16
	case "uint32":
		return math.MaxUint32
	}
	return math.MaxUint64
}

// ToGo builds the Go value handed to the engine.
func (v Val) ToGo() any {
	switch v.K {
	case "null":
		return nil
	case "bool":
		return v.B
	case "str":
		return v.S
	case "int":
		return int(v.I)
	case "int8":
		return int8(v.I)
	case "int16":
		return int16(v.I)
	case "int32":
		return int32(v.I)
	case "int64":
		return v.I
	case "dur":
		return time.Duration(v.I)
	case "nint32":
		return NamedInt32(v.I)
	case "nint":
		return NamedInt(v.I)
	case "uint":
		return uint(v.U)
	case "uint8":
		return uint8(v.U)
	case "uint16":
		return uint16(v.U)
	case "uint32":
		return uint32(v.U)
	case "uint64":
		return v.U
	case "uintptr":
		return uintptr(v.U)
	case "nuint16":
		return NamedUint16(v.U)
	case "float32":
		return float32(v.float())
	case "float64":
		return v.float()
	case "nfloat64":
		return NamedFloat64(v.float())
	case "nfloat32":
		return NamedFloat32(v.float())
	case "jnum":
		return json.Number(v.S)
	case "raw":
		return json.RawMessage(v.S)
	case "arr":
		out := make([]any, len(v.A))
		for i, e := range v.A {
			out[i] = e.ToGo()
		}
		return out
	case "strs": // []string
		out := make([]string, len(v.A))
		for i, e := range v.A {
			out[i] = e.S
		}
		return out
	case "obj":
		out := make(map[string]any, len(v.O))
		for _, m := range v.O {
			out[m.K] = m.V.ToGo()
		}
		return out
	case "mapsi": // map[string]int
		out := make(map[string]int, len(v.O))
		for _, m := range v.O {
			out[m.K] = int(m.V.I)
		}
		return out
	case "struct":
		rs := rowStruct{Name: v.S, Count: int(v.I)}
		for _, e := range v.A {
			rs.Tags = append(rs.Tags, e.S)
		}
		if len(v.O) > 0 {
			rs.Inner = map[string]any{}
			for _, m := range v.O {
				rs.Inner[m.K] = m.V.ToGo()
			}
		}
		return rs
	case "badchan":
		return make(chan int)
	case "badnan":
		return math.NaN()
	case "badinf":
		return math.Inf(1)
	case "badfunc":
		return func() {}
	}
	panic(fmt.Sprintf("unknown Val kind %q", v.K))
}

// Marshalable reports whether encoding/json can marshal the value.
func (v Val) Marshalable() bool {
	switch v.K {
	case "badchan", "badnan", "badinf", "badfunc":
		return false
	case "float32", "float64", "nfloat64", "nfloat32":
		f := v.float()
		return !math.IsNaN(f) && !math.IsInf(f, 0)
	case "arr":
		for _, e := range v.A {
			if !e.Marshalable() {
				return false
			}
		}
	case "obj", "struct":
		for _, m := range v.O {
			if !m.V.Marshalable() {
				return false
			}
		}
	}
	return true
}

// Exact is the exact mathematical value of a numeric Val.
type Exact struct {
	NaN bool
	Inf int      // -1, 0, +1
	R   *big.Rat // valid when !NaN && Inf == 0
}

func (v Val) Exact() (Exact, bool) {
	switch {
	case isSignedKind(v.K):
		return Exact{R: new(big.Rat).SetInt64(v.I)}, true
	case isUnsignedKind(v.K):
		return Exact{R: new(big.Rat).SetInt(new(big.Int).SetUint64(v.U))}, true
	case isFloatKind(v.K):
		f := v.float()
		if v.K == "float32" || v.K == "nfloat32" {
			f = float64(float32(f))
		}
		if math.IsNaN(f) {
			return Exact{NaN: true}, true
		}
		if math.IsInf(f, 1) {
			return Exact{Inf: 1}, true
		}
		if math.IsInf(f, -1) {
			return Exact{Inf: -1}, true
		}
		r := new(big.Rat)
		r.SetFloat64(f)
		return Exact{R: r}, true
	}
	return Exact{}, false
}

// Cmp compares the exact value with an int64 operand.
func (e Exact) Cmp(x int64) int {
	if e.Inf != 0 {
		return e.Inf
	}
	return e.R.Cmp(new(big.Rat).SetInt64(x))
}

func (e Exact) IsInt() bool { return e.Inf == 0 && !e.NaN && e.R.IsInt() }

var (
	bigMaxInt64 = big.NewInt(math.MaxInt64)
	bigMinInt64 = big.NewInt(math.MinInt64)
)

func clampBig(i *big.Int) int64 {
	if i.Cmp(bigMaxInt64) >= 0 {
		return math.MaxInt64
	}
	if i.Cmp(bigMinInt64) <= 0 {
		return math.MinInt64
	}
	return i.Int64()
}

// clampBigFloor / clampBigCeil: exact floor / ceiling of a finite rational,
// clamped into the int64 range.
func clampBigFloor(e Exact) int64 {
	q := new(big.Int)
	m := new(big.Int)
	q.DivMod(e.R.Num(), e.R.Denom(), m) // Euclidean: m >= 0, so q is the floor (denominator > 0)
	return clampBig(q)
}

func clampBigCeil(e Exact) int64 {
	q := new(big.Int)
	m := new(big.Int)
	q.DivMod(e.R.Num(), e.R.Denom(), m)
	if m.Sign() != 0 {
		q.Add(q, big.NewInt(1))
	}
	return clampBig(q)
}

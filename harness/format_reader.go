package harness

// Independent reader of the bloomsearch file format, written from
// FILE_FORMAT.md only (footer framing, metadata JSON, filter sections, row data
// compression and length-prefixed rows). It does not call the library's read
// helpers; C17 compares those helpers with this reader.

import (
	"bytes"
	"encoding/binary"
	"encoding/json"
	"fmt"
	"hash/crc32"
	"io"

	"github.com/bits-and-blooms/bloom/v3"
	bs "github.com/danthegoodman1/bloomsearch"
	"github.com/klauspost/compress/snappy"
	"github.com/klauspost/compress/zstd"
)

type refFileJSON struct {
	BloomFalsePositiveRate  float64
	BloomEntryCounts        bs.BloomEntryCounts
	BlockFilterRegionOffset int
	BlockFilterRegionSize   int
	FileFilterSectionSize   int
	DataBlocks              []bs.DataBlockMetadata
}

type refFilters struct {
	Field, Token, FieldToken *bloom.BloomFilter
}

type refBlock struct {
	Meta    bs.DataBlockMetadata
	Rows    [][]byte
	Filters *refFilters // nil when the block has no filter section
}

type refFile struct {
	Size        int64
	MetaJSON    []byte
	Meta        refFileJSON
	FileFilters *refFilters // nil when FileFilterSectionSize == 0
	Blocks      []refBlock
}

func refParseSection(sec []byte) (*refFilters, error) {
	if len(sec) < 5 {
		return nil, fmt.Errorf("section too small (%d bytes)", len(sec))
	}
	body := sec[:len(sec)-4]
	want := binary.LittleEndian.Uint32(sec[len(sec)-4:])
	if got := crc32.Checksum(body, crcTable); got != want {
		return nil, fmt.Errorf("section CRC32C mismatch: stored %08x computed %08x", want, got)
	}
	flags := body[0]
	if flags&^7 != 0 {
		return nil, fmt.Errorf("unknown presence flags %#x", flags)
	}
	rest := body[1:]
	out := &refFilters{}
	for bit, dst := range []**bloom.BloomFilter{&out.Field, &out.Token, &out.FieldToken} {
		if flags&(1<<uint(bit)) == 0 {
			continue
		}
		if len(rest) < 4 {
			return nil, fmt.Errorf("truncated filter length")
		}
		n := int(binary.LittleEndian.Uint32(rest))
		rest = rest[4:]
		if n > len(rest) {
			return nil, fmt.Errorf("filter length %d exceeds section remainder %d", n, len(rest))
		}
		f := &bloom.BloomFilter{}
		if _, err := f.ReadFrom(bytes.NewReader(rest[:n])); err != nil {
			return nil, fmt.Errorf("filter decode: %w", err)
		}
		*dst = f
		rest = rest[n:]
	}
	if len(rest) != 0 {
		return nil, fmt.Errorf("%d trailing bytes in section", len(rest))
	}
	return out, nil
}

func refDecompress(comp bs.CompressionType, data []byte) ([]byte, error) {
	switch comp {
	case "", bs.CompressionNone:
		return data, nil
	case bs.CompressionSnappy:
		return io.ReadAll(snappy.NewReader(bytes.NewReader(data)))
	case bs.CompressionZstd:
		d, err := zstd.NewReader(bytes.NewReader(data), zstd.WithDecoderConcurrency(1))
		if err != nil {
			return nil, err
		}
		defer d.Close()
		return io.ReadAll(d)
	}
	return nil, fmt.Errorf("unknown compression %q", comp)
}

func refSplitRows(data []byte) ([][]byte, error) {
	var rows [][]byte
	for pos := 0; pos < len(data); {
		if len(data)-pos < 4 {
			return nil, fmt.Errorf("truncated row length prefix at %d", pos)
		}
		n := int(binary.LittleEndian.Uint32(data[pos:]))
		pos += 4
		if n > len(data)-pos {
			return nil, fmt.Errorf("row length %d exceeds remaining %d", n, len(data)-pos)
		}
		rows = append(rows, data[pos:pos+n])
		pos += n
	}
	return rows, nil
}

// refReadFile parses a whole file and checks the layout FILE_FORMAT.md
// promises. strict additionally demands what the engine's own writers
// guarantee (a row-data hash on every block, sections in block order).
func refReadFile(b []byte, strict bool) (*refFile, error) {
	const tail = 4 + 4 + 4 + 8
	if len(b) < tail {
		return nil, fmt.Errorf("file too small (%d bytes)", len(b))
	}
	if string(b[len(b)-8:]) != "BLOMSRCH" {
		return nil, fmt.Errorf("bad magic bytes")
	}
	ver := binary.LittleEndian.Uint32(b[len(b)-12:])
	if ver != 3 {
		return nil, fmt.Errorf("file version %d, want 3", ver)
	}
	mlen := int(binary.LittleEndian.Uint32(b[len(b)-16:]))
	mcrc := binary.LittleEndian.Uint32(b[len(b)-20:])
	mstart := len(b) - tail - mlen
	if mstart < 0 {
		return nil, fmt.Errorf("metadata length %d exceeds file", mlen)
	}
	mj := b[mstart : mstart+mlen]
	if got := crc32.Checksum(mj, crcTable); got != mcrc {
		return nil, fmt.Errorf("metadata CRC32C mismatch: stored %08x computed %08x", mcrc, got)
	}
	rf := &refFile{Size: int64(len(b)), MetaJSON: mj}
	if err := json.Unmarshal(mj, &rf.Meta); err != nil {
		return nil, fmt.Errorf("metadata JSON: %w", err)
	}
	m := rf.Meta
	// file-level filter section immediately precedes the metadata
	ffStart := mstart - m.FileFilterSectionSize
	if m.FileFilterSectionSize < 0 || ffStart < 0 {
		return nil, fmt.Errorf("bad FileFilterSectionSize %d", m.FileFilterSectionSize)
	}
	if m.FileFilterSectionSize > 0 {
		ff, err := refParseSection(b[ffStart:mstart])
		if err != nil {
			return nil, fmt.Errorf("file-level filter section: %w", err)
		}
		rf.FileFilters = ff
	}
	// region directly after the row data, directly before the file filter section
	if m.BlockFilterRegionOffset+m.BlockFilterRegionSize != ffStart {
		return nil, fmt.Errorf("block filter region [%d,+%d) does not end where the file-level filter section starts (%d)", m.BlockFilterRegionOffset, m.BlockFilterRegionSize, ffStart)
	}
	// row data blocks contiguous from offset 0, in metadata order
	off := 0
	secOff := m.BlockFilterRegionOffset
	secTotal := 0
	for i, bm := range m.DataBlocks {
		if bm.RowDataOffset != off {
			return nil, fmt.Errorf("block %d row data at %d, expected %d (blocks must be contiguous from offset 0 in block order)", i, bm.RowDataOffset, off)
		}
		if bm.RowDataSize < 0 || off+bm.RowDataSize > m.BlockFilterRegionOffset {
			return nil, fmt.Errorf("block %d row data [%d,+%d) runs into the filter region at %d", i, off, bm.RowDataSize, m.BlockFilterRegionOffset)
		}
		comp := b[off : off+bm.RowDataSize]
		off += bm.RowDataSize
		if bm.HasRowDataHash {
			if got := crc32.Checksum(comp, crcTable); got != bm.RowDataHash {
				return nil, fmt.Errorf("block %d RowDataHash %08x != CRC32C of its compressed row data %08x", i, bm.RowDataHash, got)
			}
		} else if strict {
			return nil, fmt.Errorf("block %d has no row data hash", i)
		}
		raw, err := refDecompress(bm.Compression, comp)
		if err != nil {
			return nil, fmt.Errorf("block %d: row data does not decode as %q: %w", i, bm.Compression, err)
		}
		if len(raw) != bm.UncompressedSize {
			return nil, fmt.Errorf("block %d UncompressedSize %d but row data decodes to %d bytes", i, bm.UncompressedSize, len(raw))
		}
		rows, err := refSplitRows(raw)
		if err != nil {
			return nil, fmt.Errorf("block %d: %w", i, err)
		}
		if len(rows) != bm.Rows {
			return nil, fmt.Errorf("block %d Rows=%d but row data holds %d rows", i, bm.Rows, len(rows))
		}
		rb := refBlock{Meta: bm, Rows: rows}
		if bm.BloomFilterSize > 0 {
			if strict && bm.BloomFilterOffset != secOff {
				return nil, fmt.Errorf("block %d filter section at %d, expected %d (sections in block order, back to back)", i, bm.BloomFilterOffset, secOff)
			}
			if bm.BloomFilterOffset < m.BlockFilterRegionOffset || bm.BloomFilterOffset+bm.BloomFilterSize > m.BlockFilterRegionOffset+m.BlockFilterRegionSize {
				return nil, fmt.Errorf("block %d filter section [%d,+%d) outside the region", i, bm.BloomFilterOffset, bm.BloomFilterSize)
			}
			f, err := refParseSection(b[bm.BloomFilterOffset : bm.BloomFilterOffset+bm.BloomFilterSize])
			if err != nil {
				return nil, fmt.Errorf("block %d filter section: %w", i, err)
			}
			rb.Filters = f
			secOff += bm.BloomFilterSize
			secTotal += bm.BloomFilterSize
		} else if strict {
			return nil, fmt.Errorf("block %d has no filter section", i)
		}
		rf.Blocks = append(rf.Blocks, rb)
	}
	if off != m.BlockFilterRegionOffset {
		return nil, fmt.Errorf("row data ends at %d but the filter region starts at %d", off, m.BlockFilterRegionOffset)
	}
	if secTotal != m.BlockFilterRegionSize {
		return nil, fmt.Errorf("BlockFilterRegionSize %d != sum of section sizes %d", m.BlockFilterRegionSize, secTotal)
	}
	return rf, nil
}

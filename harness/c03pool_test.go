package harness

// C03, "pool" phase — pooled scan buffers across failure and termination paths.
// A file with 3-5 equally sized blocks (same scan-buffer size class) of 300-1200
// small rows each. A prelude of queries ends abnormally (a failed row-data read,
// a silently corrupted read, an early Close mid-block, a cancel mid-block): each
// of those paths hands its block buffer back to the pool. Then query Q1 over one
// block is left parked mid-scan by a stalled consumer while other queries scan
// other blocks to completion, and Q1 is drained. Every query that ends with
// Err()==nil must have returned exactly its block's rows, each equal to the JSON
// round trip of what was ingested: a buffer that is in the pool twice, or pooled
// while still being scanned, shows as rows of another block (or garbage) here.

import (
	"context"
	"encoding/json"
	"fmt"
	"reflect"
	"strings"
	"sync"
	"time"

	bs "github.com/danthegoodman1/bloomsearch"
	"pgregory.net/rapid"
)

type poolPre struct {
	Op    string `json:"op"` // readfail, corrupt, closeearly, cancel, ok
	Block int    `json:"block"`
	K     int    `json:"k,omitempty"` // rows consumed before closeearly/cancel
}

type c03PoolCase struct {
	Comp       string    `json:"comp"`
	Blocks     int       `json:"blocks"`
	Rows       int       `json:"rows"`
	Pad        int       `json:"pad"`
	QConc      int       `json:"qconc"`
	Procs      int       `json:"procs"`
	Prelude    []poolPre `json:"prelude"`
	Q1Block    int       `json:"q1block"`
	StallAfter int       `json:"stall_after"`
	StallMs    int       `json:"stall_ms"`
	Others     []int     `json:"others"` // blocks scanned to completion while Q1 is parked
	Rounds     int       `json:"rounds"`
	// Big: blocks of ~2.5 MiB of row data with ~170 000 distinct tokens each at
	// a false-positive rate of 1e-12, so the block filter region spans several
	// 4 MiB chunk reads and row-data buffers share the chunk buffers' size class;
	// the prelude can then fail a LATER chunk read ("chunkfail")
	Big bool `json:"big,omitempty"`
	// Mult: per-block row multiplier (absent = 1). With compression, a big
	// block's COMPRESSED size can then fall into the size class of a small
	// block's UNCOMPRESSED size, so buffers of different roles meet in one pool
	Mult []int `json:"mult,omitempty"`
}

// genC03PoolBig: the multi-chunk filter region variant.
func genC03PoolBig() *rapid.Generator[c03PoolCase] {
	return rapid.Custom(func(t *rapid.T) c03PoolCase {
		c := c03PoolCase{Big: true, Comp: "none", Blocks: rapid.IntRange(2, 3).Draw(t, "blocks"), Rows: 3600,
			QConc: pick(t, "qconc", []int{4, 2, 1}), Procs: pick(t, "procs", []int{1, 2, 0})}
		for i := rapid.IntRange(1, 3).Draw(t, "npre"); i > 0; i-- {
			c.Prelude = append(c.Prelude, poolPre{Op: pick(t, "preop", []string{"chunkfail", "chunkfail", "readfail", "closeearly"}), Block: unif(t, "preblock", c.Blocks), K: rapid.IntRange(1, 300).Draw(t, "prek")})
		}
		c.Q1Block = unif(t, "q1", c.Blocks)
		c.StallAfter = rapid.IntRange(1, 100).Draw(t, "stallafter")
		c.StallMs = pick(t, "stallms", []int{20, 50})
		for i := rapid.IntRange(1, 2).Draw(t, "nothers"); i > 0; i-- {
			c.Others = append(c.Others, unif(t, "other", c.Blocks))
		}
		c.Rounds = rapid.IntRange(1, 2).Draw(t, "rounds")
		return c
	})
}

func genC03Pool() *rapid.Generator[c03PoolCase] {
	return rapid.Custom(func(t *rapid.T) c03PoolCase {
		c := c03PoolCase{Comp: pick(t, "comp", []string{"none", "snappy", "none", "zstd"}), Blocks: rapid.IntRange(3, 5).Draw(t, "blocks"),
			Rows: pick(t, "rows", []int{400, 1000, 600, 1200, 330}), Pad: pick(t, "pad", []int{0, 24, 90}),
			QConc: pick(t, "qconc", []int{4, 1, 2, 16}), Procs: pick(t, "procs", []int{1, 1, 2, 0})}
		for i := rapid.IntRange(1, 4).Draw(t, "npre"); i > 0; i-- {
			p := poolPre{Op: pick(t, "preop", []string{"readfail", "readfail", "corrupt", "closeearly", "cancel", "ok"}), Block: unif(t, "preblock", c.Blocks)}
			p.K = rapid.IntRange(1, 300).Draw(t, "prek")
			c.Prelude = append(c.Prelude, p)
		}
		c.Q1Block = unif(t, "q1", c.Blocks)
		c.StallAfter = rapid.IntRange(1, 100).Draw(t, "stallafter")
		c.StallMs = pick(t, "stallms", []int{5, 20, 2})
		for i := rapid.IntRange(1, 3).Draw(t, "nothers"); i > 0; i-- {
			c.Others = append(c.Others, unif(t, "other", c.Blocks))
		}
		c.Rounds = rapid.IntRange(1, 3).Draw(t, "rounds")
		if c.Comp != "none" && chance(t, "uneven", 50) {
			c.Rows = pick(t, "urows", []int{330, 400})
			c.Blocks = 5
			c.Mult = []int{1, 1, 1, pick(t, "multa", []int{4, 8}), pick(t, "multb", []int{16, 32})}
			c.Q1Block = unif(t, "uq1", 3)
			c.Prelude = append([]poolPre{{Op: "corrupt", Block: 3}}, c.Prelude...)
		}
		return c
	})
}

func runC03Pool(c c03PoolCase) *Violation {
	Ev.Eval(1)
	if c.Procs > 0 {
		prev := setProcs(c.Procs)
		defer setProcs(prev)
	}
	cfg := bs.DefaultBloomSearchEngineConfig()
	cfg.MaxBufferedTime = time.Hour
	cfg.MaxBufferedRows = 1 << 30
	cfg.MaxBufferedBytes = 1 << 30
	cfg.MaxRowGroupRows = 1 << 30
	cfg.MaxRowGroupBytes = 1 << 30
	cfg.RowDataCompression = bs.CompressionType(c.Comp)
	cfg.MaxQueryConcurrency = c.QConc
	cfg.PartitionFunc = func(row map[string]any) string { s, _ := row["b"].(string); return s }
	if c.Big {
		cfg.BloomFalsePositiveRate = 1e-12
	}
	ds := NewMemDataStore(false)
	ms := bs.NewMemoryMetaStore()
	tr := NewTrace(ds, ms)
	eng, err := bs.NewBloomSearchEngine(cfg, tr, tr)
	if err != nil {
		return violf("config rejected: %v", err)
	}
	eng.Start()
	ctx := context.Background()
	defer func() {
		sctx, cancel := context.WithTimeout(ctx, 30*time.Second)
		eng.Stop(sctx)
		cancel()
	}()
	want := make([]map[string]map[string]any, c.Blocks) // per block: key -> round-tripped row
	var rows []map[string]any
	for b := 0; b < c.Blocks; b++ {
		want[b] = map[string]map[string]any{}
		nrows := c.Rows
		if b < len(c.Mult) && c.Mult[b] > 1 {
			nrows *= c.Mult[b]
		}
		for i := 0; i < nrows; i++ {
			key := fmt.Sprintf("b%d-%05d", b, i)
			row := map[string]any{"key": key, "b": fmt.Sprintf("blk%d", b), "v": fmt.Sprintf("block %d row %05d", b, i), "n": map[string]any{"i": i, "l": []any{b, "x"}}}
			if c.Pad > 0 {
				row["pad"] = strings.Repeat(string(rune('a'+b)), c.Pad)
			}
			if c.Big {
				var sb strings.Builder
				for j := 0; j < 64; j++ {
					fmt.Fprintf(&sb, "t%d-%d-%d ", b, i, j)
				}
				row["t"] = sb.String()
			}
			rows = append(rows, row)
			jb, _ := json.Marshal(row)
			var rt map[string]any
			json.Unmarshal(jb, &rt)
			want[b][key] = rt
		}
	}
	done := make(chan error, 1)
	if err := eng.IngestRows(ctx, rows, done); err != nil {
		return violf("ingest: %v", err)
	}
	if err := eng.Flush(ctx); err != nil {
		return violf("flush: %v", err)
	}
	if err := <-done; err != nil {
		return violf("ack: %v", err)
	}
	files, err := ReadWorld(ds, ms)
	if err != nil || len(files) != 1 || len(files[0].Blocks) != c.Blocks {
		infra("c03 pool world: unexpected layout (%v)", err)
		return nil
	}
	blockRange := map[string][2]int64{} // partition id -> row data byte range
	classes := map[int]bool{}
	for _, b := range files[0].Blocks {
		blockRange[b.Meta.PartitionID] = [2]int64{int64(b.Meta.RowDataOffset), int64(b.Meta.RowDataOffset + b.Meta.RowDataSize)}
		sz := b.Meta.UncompressedSize
		cl := 0
		for 1<<cl < sz {
			cl++
		}
		classes[cl] = true
	}
	regionStart := int64(files[0].Meta.BlockFilterRegionOffset)
	regionEnd := regionStart + int64(files[0].Meta.BlockFilterRegionSize)
	if c.Big {
		if regionEnd-regionStart > 4<<20 {
			Ev.Class("pool:filter-region-spans-several-chunks")
		}
		for cl := range classes {
			if cl == 22 {
				Ev.Class("pool:row-data-in-the-chunk-buffer-size-class")
			}
		}
	}
	// one-shot armed fault, aimed at reads that overlap a block's row data
	var fmu sync.Mutex
	armed := ""
	var armedRange [2]int64
	fired := 0
	tr.Before = func(ci *CallInfo) error {
		if ci.Kind != "Read" {
			return nil
		}
		fmu.Lock()
		defer fmu.Unlock()
		if armed == "" || ci.Off+int64(ci.Size) <= armedRange[0] || ci.Off >= armedRange[1] {
			return nil
		}
		op := armed
		armed = ""
		fired++
		if op == "corrupt" {
			ci.CorruptRead = true
			return nil
		}
		return fmt.Errorf("pool prelude read failure: %w", errInjected)
	}
	blockQuery := func(b int) *bs.Query { return bs.NewQuery().FieldToken("b", fmt.Sprintf("blk%d", b)).Build() }
	// judge a finished stream of rows of block b
	judge := func(who string, b int, got []map[string]any, complete bool, qerr error) *Violation {
		if qerr != nil {
			return nil // an error was reported: no claim about content (C19/C20 judge that)
		}
		seen := map[string]int{}
		for _, r := range got {
			key, _ := r["key"].(string)
			w, ok := want[b][key]
			if !ok {
				return violf("%s over block %d (Err nil) returned a row that is not a row of that block: %s", who, b, shortJSON(r, 400))
			}
			if !reflect.DeepEqual(r, w) {
				return violf("%s over block %d (Err nil) returned a row that differs from the JSON round trip of the ingested row:\nreturned %s\nexpected %s", who, b, shortJSON(r, 600), shortJSON(w, 600))
			}
			seen[key]++
			if seen[key] > 1 {
				return violf("%s over block %d (Err nil) returned row %s twice", who, b, key)
			}
		}
		if complete && len(got) != len(want[b]) {
			return violf("%s over block %d ran to completion with Err nil but returned %d of its %d rows", who, b, len(got), len(want[b]))
		}
		return nil
	}
	drain := func(res *bs.Results, limit int) []map[string]any {
		var got []map[string]any
		for (limit < 0 || len(got) < limit) && res.Next() {
			got = append(got, res.Row())
		}
		return got
	}
	// uneven worlds: aim the failing prelude reads at a block whose COMPRESSED
	// size shares a pool size class with the parked query's UNCOMPRESSED block,
	// and run the overlapping queries over blocks of that same class
	if len(c.Mult) > 0 {
		classOf := func(n int) int {
			cl := 0
			for 1<<cl < n {
				cl++
			}
			return cl
		}
		byPart := map[string]*BlockInfo{}
		for _, b := range files[0].Blocks {
			byPart[b.Meta.PartitionID] = b
		}
		q1 := byPart[fmt.Sprintf("blk%d", c.Q1Block)]
		if q1 != nil {
			want := classOf(q1.Meta.UncompressedSize)
			donor := -1
			var same []int
			for b := 0; b < c.Blocks; b++ {
				bi := byPart[fmt.Sprintf("blk%d", b)]
				if bi == nil {
					continue
				}
				if classOf(bi.Meta.RowDataSize) == want && donor < 0 {
					donor = b
				}
				if b != c.Q1Block && classOf(bi.Meta.UncompressedSize) == want {
					same = append(same, b)
				}
			}
			if donor >= 0 && len(same) > 0 {
				for i := range c.Prelude {
					if c.Prelude[i].Op == "corrupt" || c.Prelude[i].Op == "readfail" {
						c.Prelude[i].Block = donor
					}
				}
				for i := range c.Others {
					c.Others[i] = same[i%len(same)]
				}
				Ev.Class("pool:uneven-world-aimed(compressed class of the failing block == uncompressed class of the parked one)")
			}
		}
	}
	preKinds := map[string]bool{}
	for _, p := range c.Prelude {
		fmu.Lock()
		armed = ""
		if p.Op == "readfail" || p.Op == "corrupt" {
			armed = p.Op
			armedRange = blockRange[fmt.Sprintf("blk%d", p.Block)]
		}
		if p.Op == "chunkfail" {
			// a read of the block filter region that starts beyond its first 4 MiB
			// chunk: the second or a later chunk read of the filter pass
			armed = "readfail"
			armedRange = [2]int64{regionStart + 4<<20, regionEnd}
		}
		fmu.Unlock()
		qctx, cancel := context.WithCancel(ctx)
		res, err := eng.Query(qctx, blockQuery(p.Block))
		if err != nil {
			cancel()
			return violf("query rejected: %v", err)
		}
		var got []map[string]any
		complete := true
		switch p.Op {
		case "closeearly":
			got = drain(res, p.K)
			complete = len(got) < p.K
			res.Close()
		case "cancel":
			got = drain(res, p.K)
			complete = false
			cancel()
			got = append(got, drain(res, -1)...)
		default:
			got = drain(res, -1)
		}
		qerr := res.Err()
		res.Close()
		cancel()
		if p.Op == "cancel" {
			qerr = nil // rows handed out before/while cancelling are still judged; completeness is not
		}
		if v := judge("prelude "+p.Op+" query", p.Block, got, complete && p.Op != "cancel", qerr); v != nil {
			return v
		}
		preKinds[p.Op] = true
	}
	fmu.Lock()
	armed = ""
	fmu.Unlock()
	for round := 0; round < c.Rounds; round++ {
		res1, err := eng.Query(ctx, blockQuery(c.Q1Block))
		if err != nil {
			return violf("query rejected: %v", err)
		}
		got1 := drain(res1, c.StallAfter)
		time.Sleep(time.Duration(c.StallMs) * time.Millisecond) // workers fill the row buffer and park mid-scan
		var wg sync.WaitGroup
		var vmu sync.Mutex
		var ov *Violation
		for i, ob := range c.Others {
			wg.Add(1)
			go func(i, ob int) {
				defer wg.Done()
				res, err := eng.Query(ctx, blockQuery(ob))
				if err != nil {
					return
				}
				got := drain(res, -1)
				qerr := res.Err()
				res.Close()
				if v := judge(fmt.Sprintf("query #%d (run while another query was parked mid-scan)", i), ob, got, true, qerr); v != nil {
					vmu.Lock()
					if ov == nil {
						ov = v
					}
					vmu.Unlock()
				}
			}(i, ob)
			if c.Procs == 1 {
				wg.Wait() // one at a time keeps the pool hand-out order simple
			}
		}
		wg.Wait()
		got1 = append(got1, drain(res1, -1)...)
		qerr := res1.Err()
		res1.Close()
		if ov != nil {
			return ov
		}
		if v := judge("the query that was parked mid-scan by a stalled consumer", c.Q1Block, got1, true, qerr); v != nil {
			return v
		}
	}
	Ev.Class("pool:comp=" + c.Comp)
	for k := range preKinds {
		Ev.Class("pool:prelude-" + k)
	}
	if len(classes) == 1 {
		Ev.Class("pool:all-blocks-one-size-class")
	}
	if len(c.Mult) > 0 {
		// do a compressed size and an uncompressed size share a class?
		cc := map[int]bool{}
		for _, b := range files[0].Blocks {
			cl := 0
			for 1<<cl < b.Meta.RowDataSize {
				cl++
			}
			cc[cl] = true
		}
		for cl := range classes {
			if cc[cl] {
				Ev.Class("pool:a-compressed-and-an-uncompressed-size-share-a-class")
				break
			}
		}
	}
	if fired > 0 && (len(classes) == 1 || len(c.Mult) > 0) {
		Ev.NonTrivial("pool|" + jsonKey(c))
		if Ev.WantSample() {
			Ev.Sample(map[string]any{"pool_case": c})
		}
	}
	return nil
}

var _ = rapid.Bool

package harness

// C04 — prefilters never prune a block holding a row that satisfies them.
// Pure level: exact-arithmetic oracle against ConvertToMinMaxInt64 /
// UpdateMinMaxIndex / EvaluateMinMaxCondition / EvaluateDataBlockMetadata.
// End-to-end level: see c04e2e in c01_test.go (shares the engine harness).

import (
	"fmt"
	"math"
	"testing"

	bs "github.com/danthegoodman1/bloomsearch"
	"pgregory.net/rapid"
)

type c04CondCase struct {
	V      Val                 `json:"v"`      // value of the row that is in the block
	Others []Val               `json:"others"` // other rows' values for the same key
	Cond   bs.NumericCondition `json:"cond"`
}

func genC04Cond() *rapid.Generator[c04CondCase] {
	return rapid.Custom(func(t *rapid.T) c04CondCase {
		v := genNumVal().Draw(t, "v")
		others := rapid.SliceOfN(genNumVal(), 0, 4).Draw(t, "others")
		pool := operandsNear(append([]Val{v}, others...))
		cond := genNumericCondition(pool).Draw(t, "cond")
		return c04CondCase{V: v, Others: others, Cond: cond}
	})
}

// foldRange builds a block's range for one key exactly as ingest does: the
// first indexable value creates the index, later ones update it, values the
// library reports as non-numeric are skipped.
func foldRange(vals []Val) (bs.MinMaxIndex, bool) {
	var idx bs.MinMaxIndex
	have := false
	for _, v := range vals {
		lo, hi, ok := bs.ConvertToMinMaxInt64(v.ToGo())
		if !ok {
			continue
		}
		if !have {
			idx = bs.MinMaxIndex{Min: lo, Max: hi}
			have = true
		} else {
			idx = bs.UpdateMinMaxIndex(idx, lo, hi)
		}
	}
	return idx, have
}

func c04NonTrivial(v Val, e Exact, r bs.MinMaxIndex) bool {
	if v.K != "int" && v.K != "float64" {
		return true
	}
	if !e.IsInt() {
		return true
	}
	if r.Max == math.MaxInt64 || r.Min == math.MinInt64 {
		return true
	}
	if e.Inf != 0 {
		return true
	}
	lo, _, _ := refFloorCeil(v)
	return lo >= 1<<62 || lo <= -(1<<62)
}

func runC04Cond(c c04CondCase) *Violation {
	Ev.Eval(1)
	e, _ := c.V.Exact()
	Ev.Class("kind:" + c.V.K)
	Ev.Class("op:" + string(c.Cond.Operator))
	if e.NaN {
		Ev.Class("nan(no obligation)")
		// documented: NaN is not indexed
		if _, _, ok := bs.ConvertToMinMaxInt64(c.V.ToGo()); ok {
			return violf("NaN value of kind %s reported as indexable", c.V.K)
		}
		return nil
	}
	lo, hi, ok := bs.ConvertToMinMaxInt64(c.V.ToGo())
	if !ok {
		return violf("numeric value %s of Go kind %s (%T) is not indexed by ConvertToMinMaxInt64, so a block holding it lacks the minmax key and is pruned by every condition on it", valString(c.V), c.V.K, c.V.ToGo())
	}
	rlo, rhi, _ := refFloorCeil(c.V)
	if lo > rlo || hi < rhi {
		return violf("ConvertToMinMaxInt64(%s %s) = [%d,%d] does not cover the value's clamped floor/ceil [%d,%d]", c.V.K, valString(c.V), lo, hi, rlo, rhi)
	}
	all := append([]Val{c.V}, c.Others...)
	// the block's range, whatever order the rows arrived in
	for rot := 0; rot < len(all); rot++ {
		order := append(append([]Val{}, all[rot:]...), all[:rot]...)
		r, have := foldRange(order)
		if !have {
			return violf("block range missing although an indexable value was folded")
		}
		if r.Min > rlo || r.Max < rhi {
			return violf("folded range [%d,%d] does not cover value %s (floor/ceil [%d,%d]); order rotation %d", r.Min, r.Max, valString(c.V), rlo, rhi, rot)
		}
		sat := numSatisfies(e, c.Cond)
		got := bs.EvaluateMinMaxCondition(r, c.Cond)
		if sat {
			Ev.Class("satisfied")
			if c04NonTrivial(c.V, e, r) {
				Ev.NonTrivial(fmt.Sprintf("%s|%s|%d|%d|%s", c.V.K, valString(c.V), r.Min, r.Max, jsonKey(c.Cond)))
				if Ev.WantSample() {
					Ev.Sample(map[string]any{"value": c.V, "others": c.Others, "range": r, "cond": c.Cond})
				}
			}
			if !got {
				return violf("block with range [%d,%d] holds value %s (%s) which satisfies %s, but EvaluateMinMaxCondition says false (block would be pruned)", r.Min, r.Max, valString(c.V), c.V.K, jsonKey(c.Cond))
			}
		}
		// exists-semantics with open-ended saturated bounds is a lower bound too
		if rangeMaySatisfy(r, c.Cond) && !got {
			return violf("range [%d,%d] (saturated bounds open-ended) contains a value satisfying %s but EvaluateMinMaxCondition says false", r.Min, r.Max, jsonKey(c.Cond))
		}
	}
	// Ranges are also combined range-with-range (that is how a merge unions the
	// ranges of the blocks it combines): every split of the values into two
	// source blocks, merged in either order, must still cover the row's value.
	for split := 1; split < len(all); split++ {
		for rot := 0; rot < len(all); rot++ {
			order := append(append([]Val{}, all[rot:]...), all[:rot]...)
			ra, okA := foldRange(order[:split])
			rb, okB := foldRange(order[split:])
			if !okA || !okB {
				continue
			}
			for _, m := range []bs.MinMaxIndex{bs.UpdateMinMaxIndex(ra, rb.Min, rb.Max), bs.UpdateMinMaxIndex(rb, ra.Min, ra.Max)} {
				if m.Min > rlo || m.Max < rhi {
					return violf("ranges [%d,%d] and [%d,%d] of two source blocks combine to [%d,%d], which does not cover value %s (floor/ceil [%d,%d]) held by one of them", ra.Min, ra.Max, rb.Min, rb.Max, m.Min, m.Max, valString(c.V), rlo, rhi)
				}
				if numSatisfies(e, c.Cond) && !bs.EvaluateMinMaxCondition(m, c.Cond) {
					return violf("combined range [%d,%d] prunes a block holding value %s which satisfies %s", m.Min, m.Max, valString(c.V), jsonKey(c.Cond))
				}
			}
		}
	}
	return nil
}

func valString(v Val) string {
	switch {
	case isSignedKind(v.K):
		return fmt.Sprintf("%d", v.I)
	case isUnsignedKind(v.K):
		return fmt.Sprintf("%d", v.U)
	case isFloatKind(v.K):
		return v.F
	}
	return jsonKey(v)
}

// ---- tree phase ----

type c04Row struct {
	Part string         `json:"part"`
	Vals map[string]Val `json:"vals"` // key -> value (absent key = field absent); may hold non-numeric values
}

type c04TreeCase struct {
	Row    c04Row                 `json:"row"`
	Others []c04Row               `json:"others"` // same partition by construction (a block has one partition)
	Tree   bs.PrefilterExpression `json:"tree"`
	NilQ   int                    `json:"nilq"` // 0: normal, 1: nil *QueryPrefilter, 2: nil Expression
}

var c04Keys = []string{"a", "b", "ts"}
var c04Parts = []string{"", "p1", "p2", "P1", "p10", "z"}

func genC04Row(part string) *rapid.Generator[c04Row] {
	return rapid.Custom(func(t *rapid.T) c04Row {
		r := c04Row{Part: part, Vals: map[string]Val{}}
		for _, k := range c04Keys {
			switch rapid.IntRange(0, 9).Draw(t, "has_"+k) {
			case 0, 1:
				// absent
			case 2:
				r.Vals[k] = rapid.SampledFrom([]Val{VStr("12"), VNull(), VBool(true), VJNum("5"), VArr(VInt(1))}).Draw(t, "nonnum")
			default:
				r.Vals[k] = genNumVal().Draw(t, "v_"+k)
			}
		}
		return r
	})
}

func genC04Tree() *rapid.Generator[c04TreeCase] {
	return rapid.Custom(func(t *rapid.T) c04TreeCase {
		part := rapid.SampledFrom(c04Parts).Draw(t, "part")
		row := genC04Row(part).Draw(t, "row")
		others := rapid.SliceOfN(genC04Row(part), 0, 3).Draw(t, "others")
		var vals []Val
		for _, r := range append([]c04Row{row}, others...) {
			for _, k := range c04Keys {
				if v, ok := r.Vals[k]; ok {
					vals = append(vals, v)
				}
			}
		}
		tree := drawPrefilterTree(t, c04Keys, operandsNear(vals), c04Parts, 3)
		nilq := 0
		if chance(t, "nilq", 2) {
			nilq = rapid.IntRange(1, 2).Draw(t, "nilqkind")
		}
		return c04TreeCase{Row: row, Others: others, Tree: tree, NilQ: nilq}
	})
}

func buildC04Block(rows []c04Row) bs.DataBlockMetadata {
	b := bs.DataBlockMetadata{PartitionID: rows[0].Part, MinMaxIndexes: map[string]bs.MinMaxIndex{}, Rows: len(rows)}
	for _, k := range c04Keys {
		var vals []Val
		for _, r := range rows {
			if v, ok := r.Vals[k]; ok {
				vals = append(vals, v)
			}
		}
		if idx, have := foldRange(vals); have {
			b.MinMaxIndexes[k] = idx
		}
	}
	return b
}

func c04Facts(r c04Row) RowFacts {
	f := RowFacts{Partition: r.Part, Nums: map[string]Exact{}}
	for k, v := range r.Vals {
		if e, ok := v.Exact(); ok && !e.NaN {
			f.Nums[k] = e
		}
	}
	return f
}

func runC04Tree(c c04TreeCase) *Violation {
	Ev.Eval(1)
	rows := append([]c04Row{c.Row}, c.Others...)
	var q *bs.QueryPrefilter
	switch c.NilQ {
	case 0:
		tree := c.Tree
		q = &bs.QueryPrefilter{Expression: &tree}
	case 2:
		q = &bs.QueryPrefilter{}
	}
	facts := c04Facts(c.Row)
	sat := rowSatisfiesPrefilter(facts, q)
	// every arrival order of the rows gives a block that must survive
	for rot := 0; rot < len(rows); rot++ {
		order := append(append([]c04Row{}, rows[rot:]...), rows[:rot]...)
		block := buildC04Block(order)
		got := bs.EvaluateDataBlockMetadata(&block, q)
		kept := len(bs.FilterDataBlocks([]bs.DataBlockMetadata{block}, q)) == 1
		if got != kept {
			return violf("EvaluateDataBlockMetadata=%v but FilterDataBlocks kept=%v for block %s", got, kept, jsonKey(block))
		}
		if sat {
			Ev.Class("row satisfies tree")
			nt := false
			for k, v := range c.Row.Vals {
				if e, ok := v.Exact(); ok && !e.NaN {
					if r, has := block.MinMaxIndexes[k]; has && c04NonTrivial(v, e, r) {
						nt = true
					}
				}
			}
			if nt {
				Ev.NonTrivial(jsonKey(c))
				if Ev.WantSample() {
					Ev.Sample(c)
				}
			}
			if !got {
				return violf("row (partition %q, values %s) satisfies the prefilter tree under exact arithmetic, but its block (metadata %s) is pruned by %s", c.Row.Part, jsonKey(c.Row.Vals), jsonKey(block), jsonKey(q))
			}
		}
		if blockMaySatisfy(&block, q) && !got {
			return violf("block metadata %s satisfies the tree under exists-semantics (saturated bounds open-ended) but is pruned by %s", jsonKey(block), jsonKey(q))
		}
		if got && !blockHasMetadata(&block, q) {
			return violf("block %s lacks metadata needed by the tree %s yet survives the strict prefilter", jsonKey(block), jsonKey(q))
		}
	}
	return nil
}

func TestC04(t *testing.T) {
	Ev.Level = "exploration"
	Ev.Rule = "pure: (Go numeric value of any kind incl. named types) x (0-4 other values folded into the block range through ConvertToMinMaxInt64/UpdateMinMaxIndex, every rotation) x (NumericCondition, all operators, operands at value floor/ceil +-1 and int64 extremes) and random AND/OR prefilter trees over 3 keys + partition; oracle = math/big exact arithmetic. e2e phase: engine histories (3-8 single-flush files of 1-3 rows with numbers of every kind under the indexed keys, one or two partitions, merged once or twice so block ranges are hulls of several source ranges) and prefilter queries with operands next to the stored values: every stored row whose own partition and exact values satisfy the tree must be returned. Non-trivial: the row's value satisfies the condition/tree AND (kind is not plain int/float64, or value non-integral, or |v|>=2^62, or infinite, or a block bound is saturated); distinct by (kind,value,range,condition) hash."
	Ev.Assumptions = []string{"NaN imposes no obligation (documented as not indexed)", "block ranges are built with the library's own ConvertToMinMaxInt64/UpdateMinMaxIndex in ingest order (all rotations)"}
	runChecks(t, "cond", 40000, 1500000, genC04Cond(), runC04Cond)
	runChecks(t, "tree", 10000, 400000, genC04Tree(), runC04Tree)
	if !thorough() || true {
		c04EndToEnd(t)
	}
}

package harness

import "runtime"

// setProcs sets GOMAXPROCS and returns the previous value (schedule checks vary
// it per case to reach different interleavings).
func setProcs(n int) int { return runtime.GOMAXPROCS(n) }

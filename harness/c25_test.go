package harness

// C25 — query expression trees mean what they say and survive serialization.
// An abstract boolean formula over <=5 atoms is built through the public
// constructors / raw structs / the builder, and evaluated by ONE engine query
// over a fixed 32-row dataset in which atom i holds exactly on the rows whose
// id has bit i set: the query result is the formula's full truth table.

import (
	"context"
	"encoding/json"
	"fmt"
	"sort"
	"strings"
	"sync"
	"testing"
	"time"

	bs "github.com/danthegoodman1/bloomsearch"
	"pgregory.net/rapid"
)

const c25Atoms = 5

type F struct {
	Op  string `json:"op"` // atom, and, or, nilcond, unknown
	I   int    `json:"i,omitempty"`
	K   int    `json:"k,omitempty"`   // atom kind (bloom: 0 field, 1 token, 2 field:token)
	Raw bool   `json:"raw,omitempty"` // build the node as a raw struct instead of the flattening constructor
	Ch  []F    `json:"ch,omitempty"`
}

func (f F) eval(bits int) bool {
	switch f.Op {
	case "atom":
		return bits&(1<<f.I) != 0
	case "and":
		for _, c := range f.Ch {
			if !c.eval(bits) {
				return false
			}
		}
		return true
	case "or":
		for _, c := range f.Ch {
			if c.eval(bits) {
				return true
			}
		}
		return false
	case "nilcond":
		return true
	}
	return false // unknown
}

func (f F) depth() int {
	d := 0
	for _, c := range f.Ch {
		if x := c.depth(); x > d {
			d = x
		}
	}
	return d + 1
}

// interesting: a nested node of the same type as its parent (flattenable), or
// an empty / nil / unknown node somewhere.
func (f F) interesting(parent string) bool {
	if f.Op == "nilcond" || f.Op == "unknown" || ((f.Op == "and" || f.Op == "or") && len(f.Ch) == 0) {
		return true
	}
	if (f.Op == "and" || f.Op == "or") && f.Op == parent {
		return true
	}
	for _, c := range f.Ch {
		if c.interesting(f.Op) {
			return true
		}
	}
	return false
}

func drawF(t *rapid.T, depth int, allowUnknown bool) F {
	k := unif(t, "fnode", 20)
	if depth <= 0 && k >= 9 {
		k = k % 9
	}
	switch {
	case k < 7:
		return F{Op: "atom", I: unif(t, "atom", c25Atoms), K: unif(t, "akind", 3)}
	case k < 8:
		return F{Op: "nilcond"}
	case k < 9:
		if allowUnknown {
			return F{Op: "unknown"}
		}
		return F{Op: "nilcond"}
	default:
		n := rapid.IntRange(0, 3).Draw(t, "nch")
		ch := make([]F, n)
		for i := range ch {
			ch[i] = drawF(t, depth-1, allowUnknown)
		}
		op := "and"
		if k >= 15 {
			op = "or"
		}
		return F{Op: op, Ch: ch, Raw: chance(t, "raw", 25)}
	}
}

func (f F) bloom() bs.BloomExpression {
	switch f.Op {
	case "atom":
		switch f.K {
		case 0:
			return bs.Field(fmt.Sprintf("f%d", f.I))
		case 1:
			return bs.Token(fmt.Sprintf("t%d", f.I))
		default:
			return bs.FieldToken(fmt.Sprintf("ft%d", f.I), "v")
		}
	case "nilcond":
		return bs.BloomExpression{ExpressionType: bs.BloomExpressionCondition}
	case "unknown":
		return bs.BloomExpression{ExpressionType: "XOR"}
	}
	ch := make([]bs.BloomExpression, len(f.Ch))
	for i, c := range f.Ch {
		ch[i] = c.bloom()
	}
	if f.Op == "and" {
		if f.Raw {
			return bs.BloomExpression{ExpressionType: bs.BloomExpressionAnd, Children: ch}
		}
		return bs.And(ch...)
	}
	if f.Raw {
		return bs.BloomExpression{ExpressionType: bs.BloomExpressionOr, Children: ch}
	}
	return bs.Or(ch...)
}

func (f F) regex() bs.RegexExpression {
	switch f.Op {
	case "atom":
		switch f.K {
		case 0:
			return bs.FieldRegex(fmt.Sprintf("f%d", f.I), "^true$")
		case 1:
			return bs.FieldRegex("tk", fmt.Sprintf(`(^| )t%d( |$)`, f.I))
		default:
			return bs.FieldRegex(fmt.Sprintf("ft%d", f.I), "v")
		}
	case "nilcond", "unknown":
		return bs.RegexExpression{ExpressionType: bs.RegexExpressionCondition}
	}
	ch := make([]bs.RegexExpression, len(f.Ch))
	for i, c := range f.Ch {
		ch[i] = c.regex()
	}
	if f.Op == "and" {
		if f.Raw {
			return bs.RegexExpression{ExpressionType: bs.RegexExpressionAnd, Children: ch}
		}
		return bs.RegexAnd(ch...)
	}
	if f.Raw {
		return bs.RegexExpression{ExpressionType: bs.RegexExpressionOr, Children: ch}
	}
	return bs.RegexOr(ch...)
}

func (f F) prefilter() bs.PrefilterExpression {
	switch f.Op {
	case "atom":
		switch f.K {
		case 0:
			return bs.MinMax(fmt.Sprintf("k%d", f.I), bs.NumericEquals(1))
		case 1:
			return bs.MinMax(fmt.Sprintf("k%d", f.I), bs.NumericGreaterThan(0))
		default:
			return bs.MinMax(fmt.Sprintf("k%d", f.I), bs.NumericBetween(1, 5))
		}
	case "nilcond":
		return bs.PrefilterExpression{ExpressionType: bs.PrefilterExpressionCondition}
	case "unknown":
		return bs.PrefilterExpression{ExpressionType: "XOR"}
	}
	ch := make([]bs.PrefilterExpression, len(f.Ch))
	for i, c := range f.Ch {
		ch[i] = c.prefilter()
	}
	if f.Op == "and" {
		if f.Raw {
			return bs.PrefilterExpression{ExpressionType: bs.PrefilterExpressionAnd, Children: ch}
		}
		return bs.PrefilterAnd(ch...)
	}
	if f.Raw {
		return bs.PrefilterExpression{ExpressionType: bs.PrefilterExpressionOr, Children: ch}
	}
	return bs.PrefilterOr(ch...)
}

// ---- fixed dataset

var (
	c25Once sync.Once
	c25Eng  *bs.BloomSearchEngine
	c25Err  error
)

func c25Engine() (*bs.BloomSearchEngine, error) {
	c25Once.Do(func() {
		cfg := bs.DefaultBloomSearchEngineConfig()
		cfg.MaxBufferedTime = time.Hour
		cfg.BloomFalsePositiveRate = 1e-9
		cfg.PartitionFunc = func(row map[string]any) string { return fmt.Sprintf("r%02d", row["id"].(int)) }
		for i := 0; i < c25Atoms; i++ {
			cfg.MinMaxIndexes = append(cfg.MinMaxIndexes, fmt.Sprintf("k%d", i))
		}
		ds := NewMemDataStore(false)
		eng, err := bs.NewBloomSearchEngine(cfg, bs.NewMemoryMetaStore(), ds)
		if err != nil {
			c25Err = err
			return
		}
		eng.Start()
		var rows []map[string]any
		for r := 0; r < 1<<c25Atoms; r++ {
			row := map[string]any{"id": r}
			var toks []string
			for i := 0; i < c25Atoms; i++ {
				if r&(1<<i) != 0 {
					row[fmt.Sprintf("f%d", i)] = true
					row[fmt.Sprintf("ft%d", i)] = "v"
					row[fmt.Sprintf("k%d", i)] = 1
					toks = append(toks, fmt.Sprintf("t%d", i))
				} else {
					row[fmt.Sprintf("k%d", i)] = 0
				}
			}
			row["tk"] = strings.Join(toks, " ")
			rows = append(rows, row)
		}
		done := make(chan error, 1)
		if err := eng.IngestRows(context.Background(), rows, done); err != nil {
			c25Err = err
			return
		}
		if err := eng.Flush(context.Background()); err != nil {
			c25Err = err
			return
		}
		if err := <-done; err != nil {
			c25Err = err
			return
		}
		c25Eng = eng
	})
	return c25Eng, c25Err
}

func c25Run(q *bs.Query) ([]int, error, error) {
	eng, err := c25Engine()
	if err != nil {
		return nil, nil, err
	}
	res, err := eng.Query(context.Background(), q)
	if err != nil {
		return nil, err, nil
	}
	defer res.Close()
	var ids []int
	for res.Next() {
		id, _ := rowID(res.Row())
		ids = append(ids, id)
	}
	if err := res.Err(); err != nil {
		return nil, nil, fmt.Errorf("query error on healthy store: %w", err)
	}
	sort.Ints(ids)
	return ids, nil, nil
}

func truthTable(fs ...*F) []int {
	var out []int
	for r := 0; r < 1<<c25Atoms; r++ {
		ok := true
		for _, f := range fs {
			if f != nil && !f.eval(r) {
				ok = false
			}
		}
		if ok {
			out = append(out, r)
		}
	}
	return out
}

// ---- builder scripts

type BOp struct {
	Op string `json:"op"` // field token fieldtoken regex match matchregex prefilter
	I  int    `json:"i,omitempty"`
	F  *F     `json:"f,omitempty"`
}

type c25Case struct {
	Mode   string `json:"mode"` // "direct" or "builder"
	Bloom  *F     `json:"bloom,omitempty"`
	Regex  *F     `json:"regex,omitempty"`
	Pref   *F     `json:"pref,omitempty"`
	Script []BOp  `json:"script,omitempty"`
}

func genC25() *rapid.Generator[c25Case] {
	return rapid.Custom(func(t *rapid.T) c25Case {
		if chance(t, "builder", 35) {
			n := rapid.IntRange(1, 6).Draw(t, "nops")
			var sc []BOp
			for i := 0; i < n; i++ {
				switch unif(t, "bop", 10) {
				case 0, 1:
					sc = append(sc, BOp{Op: "field", I: unif(t, "i", c25Atoms)})
				case 2, 3:
					sc = append(sc, BOp{Op: "token", I: unif(t, "i", c25Atoms)})
				case 4:
					sc = append(sc, BOp{Op: "fieldtoken", I: unif(t, "i", c25Atoms)})
				case 5, 6:
					sc = append(sc, BOp{Op: "regex", I: unif(t, "i", c25Atoms)})
				case 7:
					f := drawF(t, 2, true)
					sc = append(sc, BOp{Op: "match", F: &f})
				case 8:
					f := drawF(t, 2, false)
					sc = append(sc, BOp{Op: "matchregex", F: &f})
				default:
					f := drawF(t, 2, true)
					sc = append(sc, BOp{Op: "prefilter", F: &f})
				}
			}
			return c25Case{Mode: "builder", Script: sc}
		}
		c := c25Case{Mode: "direct"}
		if !chance(t, "nobloom", 20) {
			f := drawF(t, 3, true)
			c.Bloom = &f
		}
		if chance(t, "regex", 50) {
			f := drawF(t, 2, false)
			c.Regex = &f
		}
		if chance(t, "pref", 50) {
			f := drawF(t, 2, true)
			c.Pref = &f
		}
		return c
	})
}

func sameInts(a, b []int) bool {
	if len(a) != len(b) {
		return false
	}
	for i := range a {
		if a[i] != b[i] {
			return false
		}
	}
	return true
}

func roundTripQuery(q *bs.Query) (*bs.Query, string, error) {
	b, err := json.Marshal(q)
	if err != nil {
		return nil, "", err
	}
	var back bs.Query
	if err := json.Unmarshal(b, &back); err != nil {
		return nil, string(b), err
	}
	return &back, string(b), nil
}

func runC25(c c25Case) *Violation {
	Ev.Eval(1)
	var q *bs.Query
	var accept [][]int // acceptable truth tables
	nontrivial := false
	switch c.Mode {
	case "direct":
		q = &bs.Query{}
		if c.Bloom != nil {
			e := c.Bloom.bloom()
			q.Bloom = &bs.BloomQuery{Expression: &e}
			nontrivial = nontrivial || (c.Bloom.depth() >= 2 && c.Bloom.interesting(""))
		}
		if c.Regex != nil {
			e := c.Regex.regex()
			q.Regex = &bs.RegexQuery{Expression: &e}
			nontrivial = nontrivial || (c.Regex.depth() >= 2 && c.Regex.interesting(""))
		}
		if c.Pref != nil {
			e := c.Pref.prefilter()
			q.Prefilter = &bs.QueryPrefilter{Expression: &e}
			nontrivial = nontrivial || (c.Pref.depth() >= 2 && c.Pref.interesting(""))
		}
		accept = [][]int{truthTable(c.Bloom, c.Regex, c.Pref)}
		Ev.Class("mode:direct")
	case "builder":
		Ev.Class("mode:builder")
		b := bs.NewQuery()
		// reading A: everything is ANDed; reading B: Match/MatchRegex replace what was chained before them
		var allB, allR []*F      // reading A
		var replB, replR []*F    // reading B
		var pref *F
		sawMatchAfterChain := false
		for _, op := range c.Script {
			atom := func(kind int) *F { return &F{Op: "atom", I: op.I, K: kind} }
			switch op.Op {
			case "field":
				b.Field(fmt.Sprintf("f%d", op.I))
				allB, replB = append(allB, atom(0)), append(replB, atom(0))
			case "token":
				b.Token(fmt.Sprintf("t%d", op.I))
				allB, replB = append(allB, atom(1)), append(replB, atom(1))
			case "fieldtoken":
				b.FieldToken(fmt.Sprintf("ft%d", op.I), "v")
				allB, replB = append(allB, atom(2)), append(replB, atom(2))
			case "regex":
				b.FieldRegex(fmt.Sprintf("f%d", op.I), "^true$")
				allR, replR = append(allR, atom(0)), append(replR, atom(0))
			case "match":
				b.Match(op.F.bloom())
				if len(replB) > 0 {
					sawMatchAfterChain = true
				}
				allB, replB = append(allB, op.F), []*F{op.F}
				nontrivial = nontrivial || op.F.interesting("")
			case "matchregex":
				b.MatchRegex(op.F.regex())
				if len(replR) > 0 {
					sawMatchAfterChain = true
				}
				allR, replR = append(allR, op.F), []*F{op.F}
			case "prefilter":
				b.MatchPrefilter(op.F.prefilter())
				pref = op.F // setter: last wins
			}
		}
		q = b.Build()
		mk := func(bl, rl []*F) []int {
			fs := append(append([]*F{}, bl...), rl...)
			fs = append(fs, pref)
			return truthTable(fs...)
		}
		accept = [][]int{mk(replB, replR)}
		if sawMatchAfterChain {
			Ev.Class("builder:match-after-chained(either reading accepted)")
			accept = append(accept, mk(allB, allR), mk(allB, replR), mk(replB, allR))
		}
		nontrivial = nontrivial || len(c.Script) >= 3
	}

	got, qerr, herr := c25Run(q)
	if herr != nil {
		return violf("fixed dataset unusable: %v", herr)
	}
	if qerr != nil {
		return violf("query built from valid constructors was rejected: %v\nquery: %s", qerr, shortJSON(q, 1500))
	}
	okAny := false
	for _, a := range accept {
		if sameInts(got, a) {
			okAny = true
		}
	}
	if !okAny {
		return violf("tree does not mean what was written: truth table over the 32-row dataset is %v, the formula's is %v\ncase: %s\nquery: %s", got, accept[0], shortJSON(c, 1500), shortJSON(q, 2000))
	}
	// JSON round trip of the whole Query: identical results, identical re-marshal
	back, js, err := roundTripQuery(q)
	if err != nil {
		return violf("Query does not round-trip through JSON: %v\njson: %s", err, js)
	}
	got2, qerr2, _ := c25Run(back)
	if qerr2 != nil || !sameInts(got, got2) {
		return violf("Query changes meaning across a JSON round trip: %v before, %v after (err %v)\njson: %s", got, got2, qerr2, js)
	}
	if js2 := jsonKey(back); js2 != js {
		return violf("Query re-marshals differently after a JSON round trip:\nfirst  %s\nsecond %s", js, js2)
	}
	if nontrivial {
		Ev.NonTrivial(js)
		if Ev.WantSample() {
			Ev.Sample(map[string]any{"case": c, "truth_table": got})
		}
	}
	return nil
}

// ---- arbitrary trees: structural round trip + evaluation equality

type c25RTCase struct {
	Bloom  *bs.BloomExpression     `json:"bloom,omitempty"`
	Regex  *bs.RegexExpression     `json:"regex,omitempty"`
	Pref   *bs.PrefilterExpression `json:"pref,omitempty"`
	Rows   []Val                   `json:"rows"`
	Blocks []c04Row                `json:"blocks"`
}

func genC25RT() *rapid.Generator[c25RTCase] {
	return rapid.Custom(func(t *rapid.T) c25RTCase {
		spec := RowSpec{PartField: partFieldName, NumFields: numFieldPool}
		n := rapid.IntRange(1, 4).Draw(t, "nrows")
		var rows []Val
		var sims []simRow
		for i := 0; i < n; i++ {
			rv := withID(drawRow(t, spec), i+1)
			jb := mustMarshal(rowGo(rv))
			em, err := emissionsOf(jb)
			if err != nil {
				continue
			}
			rows = append(rows, rv)
			sims = append(sims, simRow{ID: i + 1, JSON: jb, Sem: rowSem(em, refDefaultTokens), Val: rv})
		}
		pools := buildPools(sims)
		c := c25RTCase{Rows: rows}
		be := drawBloomTree(t, pools, 3)
		c.Bloom = &be
		re := drawRegexTree(t, pools, 3)
		c.Regex = &re
		part := rapid.SampledFrom(c04Parts).Draw(t, "part")
		c.Blocks = rapid.SliceOfN(genC04Row(part), 1, 3).Draw(t, "blocks")
		var vals []Val
		for _, b := range c.Blocks {
			for _, k := range c04Keys {
				if v, ok := b.Vals[k]; ok {
					vals = append(vals, v)
				}
			}
		}
		pe := drawPrefilterTree(t, c04Keys, operandsNear(vals), c04Parts, 3)
		c.Pref = &pe
		return c
	})
}

func runC25RT(c c25RTCase) *Violation {
	Ev.Eval(1)
	q := &bs.Query{Bloom: &bs.BloomQuery{Expression: c.Bloom}, Regex: &bs.RegexQuery{Expression: c.Regex}, Prefilter: &bs.QueryPrefilter{Expression: c.Pref}}
	back, js, err := roundTripQuery(q)
	if err != nil {
		return violf("Query does not round-trip through JSON: %v\njson: %s", err, js)
	}
	if strings.Contains(js, "\\ufffd") {
		// a string that is not valid UTF-8 has no JSON representation
		// (encoding/json substitutes U+FFFD): outside the round-trip domain
		Ev.Class("skipped:string-not-valid-utf8")
		return nil
	}
	if js2 := jsonKey(back); js2 != js {
		return violf("Query re-marshals differently after a JSON round trip:\nfirst  %s\nsecond %s", js, js2)
	}
	for _, rv := range c.Rows {
		em, err := emissionsOf(mustMarshal(rowGo(rv)))
		if err != nil {
			continue
		}
		rs := rowSem(em, refDefaultTokens)
		if evalBloom(rs, c.Bloom) != evalBloom(rs, back.Bloom.Expression) {
			return violf("bloom tree evaluates differently after a JSON round trip\njson: %s\nrow: %s", js, mustMarshal(rowGo(rv)))
		}
		if regexProblem(c.Regex) == "" && evalRegex(rs, c.Regex) != evalRegex(rs, back.Regex.Expression) {
			return violf("regex tree evaluates differently after a JSON round trip\njson: %s\nrow: %s", js, mustMarshal(rowGo(rv)))
		}
	}
	for rot := range c.Blocks {
		order := append(append([]c04Row{}, c.Blocks[rot:]...), c.Blocks[:rot]...)
		block := buildC04Block(order)
		a := bs.EvaluateDataBlockMetadata(&block, q.Prefilter)
		b := bs.EvaluateDataBlockMetadata(&block, back.Prefilter)
		if a != b {
			return violf("prefilter tree evaluates differently after a JSON round trip (%v vs %v)\njson: %s\nblock: %s", a, b, js, jsonKey(block))
		}
	}
	Ev.NonTrivial(js)
	if Ev.WantSample() {
		Ev.Sample(map[string]any{"query_json": json.RawMessage(js)})
	}
	return nil
}

func TestC25(t *testing.T) {
	Ev.Rule = "truth phase: abstract boolean formulas over 5 atoms (depth <= 3; empty AND/OR, nil-condition and unknown nodes) built through the public constructors (flattening), raw structs, or QueryBuilder call sequences, for bloom, regex and prefilter trees; ONE query over a fixed 32-row dataset (atom i true exactly on rows with bit i; one row per block so prefilters are exact) yields the full truth table, compared with the formula; the Query is then round-tripped through JSON (same results, same re-marshal). Builder sequences where Match/MatchRegex follows chained conditions accept both documented-compatible readings. roundtrip phase: arbitrary generated bloom/regex/prefilter trees: re-marshal equality and identical evaluation (independent oracle on generated rows; EvaluateDataBlockMetadata on generated block metadata). shared phase: ONE expression value (from a constructor, from JSON decoding, or append-built with spare capacity) used for 2-4 builder chains / And / Or calls (builder calls optionally interleaved); every derived tree must still mean its own combination after all were built and the shared value must be unchanged. Non-trivial (truth phase): depth>=2 with a flattenable same-type child or an empty/nil/unknown node, or a builder script of >=3 calls; distinct by the Query's JSON."
	Ev.Assumptions = []string{"Match/MatchRegex after earlier chained conditions: either 'replace' or 'AND' reading accepted (documentation does not decide)", "MatchPrefilter is a setter (last wins)"}
	runChecks(t, "truth", 2500, 100000, genC25(), runC25)
	runChecks(t, "roundtrip", 1500, 60000, genC25RT(), runC25RT)
	runChecks(t, "shared", 1500, 60000, genC25Shared(), runC25Shared)
}

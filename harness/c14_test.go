package harness

// C14 — queries concurrent with flushes and merges see a consistent snapshot.
// Three generated arrangements, for both shipped MetaStores:
//   window:  a complete probe query is run (synchronously, on the engine's own
//            goroutine) before and after every store call of a flush or merge,
//            i.e. inside every publish / commit / cleanup window;
//   span:    a query's MetaStore iteration is paused after k candidates while a
//            whole flush or Merge commits, then resumed;
//   stress:  writers, a merger and queriers run freely.
// Oracle: a query that ends with Err()==nil returns every id acknowledged
// before it started exactly once, no id more than once, no id never ingested.

import (
	"sync/atomic"
	"context"
	"fmt"
	"sort"
	"strings"
	"sync"
	"testing"
	"time"

	bs "github.com/danthegoodman1/bloomsearch"
	"pgregory.net/rapid"
)

type c14Step struct {
	Op    string `json:"op"` // ingest, merge
	Rows  int    `json:"rows,omitempty"`
	Parts int    `json:"parts,omitempty"`
	// merge: the Merge's context is cancelled when the merge makes its N-th
	// call of this kind ("" = never)
	CancelKind string `json:"cancel_kind,omitempty"`
	CancelN    int    `json:"cancel_n,omitempty"`
	// merge: one-shot store failure at the N-th call of this kind during the merge
	FailKind string `json:"fail_kind,omitempty"`
	FailN    int    `json:"fail_n,omitempty"`
	// ingest: partitions of different groups are disjoint (several merge groups)
	Group int `json:"group,omitempty"`
}

type c14Case struct {
	Mode     string    `json:"mode"` // window, span, stress
	Meta     string    `json:"meta"` // mem, fs
	Steps    []c14Step `json:"steps"`
	PauseAt  int       `json:"pause_at,omitempty"`  // span: IterYield ordinal at which the query's iteration is paused
	SpanWhat string    `json:"span_what,omitempty"` // span: "merge" or "flush" happens while the query is paused
	Writers  int       `json:"writers,omitempty"`   // stress
	Queriers int       `json:"queriers,omitempty"`
	Merger   bool      `json:"merger,omitempty"`
	Ms       int       `json:"ms,omitempty"`
	Procs    int       `json:"procs,omitempty"`
	// QLife: lifecycle of the engine that runs the paused query in span mode
	// (queries work on engines that were never started or are stopped)
	QLife string `json:"qlife,omitempty"` // "", started, stopped
}

func genC14() *rapid.Generator[c14Case] {
	return rapid.Custom(func(t *rapid.T) c14Case {
		c := c14Case{Mode: pick(t, "mode", []string{"window", "span", "window", "span", "stress"}), Meta: pick(t, "meta", []string{"mem", "fs"})}
		n := rapid.IntRange(2, 6).Draw(t, "nsteps")
		for i := 0; i < n; i++ {
			if i >= 2 && chance(t, "merge", 35) {
				m := c14Step{Op: "merge"}
				if chance(t, "cancelmerge", 30) {
					m.CancelKind = pick(t, "ck", []string{"CreateFile", "Write", "Close", "OpenFile", "Read"})
					m.CancelN = unif(t, "cn", 3)
				} else if chance(t, "failmerge", 35) {
					m.FailKind = pick(t, "fk", []string{"CreateFile", "CreateFile", "Write", "Close", "OpenFile", "Read", "Update"})
					m.FailN = pick(t, "fn", []int{0, 1, 1, 2, 3})
				}
				c.Steps = append(c.Steps, m)
			} else {
				c.Steps = append(c.Steps, c14Step{Op: "ingest", Rows: rapid.IntRange(1, 3).Draw(t, "rows"), Parts: pick(t, "parts", []int{1, 2, 3, 0, 0}), Group: pick(t, "group", []int{0, 0, 1})})
			}
		}
		if c.Mode != "stress" {
			// make sure there is a merge to look into
			c.Steps = append(c.Steps, c14Step{Op: "merge"})
		}
		if c.Mode == "window" && chance(t, "multigroup", 30) {
			// one Merge with several groups (files of disjoint partitions) that
			// fails, or is cancelled, in its second or a later group
			c.Steps = nil
			for g := 0; g < rapid.IntRange(2, 3).Draw(t, "ngroups"); g++ {
				for i := rapid.IntRange(2, 3).Draw(t, "gfiles"); i > 0; i-- {
					c.Steps = append(c.Steps, c14Step{Op: "ingest", Rows: rapid.IntRange(1, 3).Draw(t, "grows"), Parts: pick(t, "gparts", []int{1, 2}), Group: g + 1})
				}
			}
			m := c14Step{Op: "merge"}
			switch unif(t, "mgend", 4) {
			case 0:
				m.CancelKind, m.CancelN = pick(t, "mgck", []string{"CreateFile", "Close", "OpenFile"}), pick(t, "mgcn", []int{1, 2, 3})
			case 1, 2:
				m.FailKind, m.FailN = pick(t, "mgfk", []string{"CreateFile", "Write", "Close", "OpenFile", "Read"}), pick(t, "mgfn", []int{1, 1, 2, 3, 4})
			}
			c.Steps = append(c.Steps, m, c14Step{Op: "ingest", Rows: 1, Parts: 1, Group: 1}, c14Step{Op: "merge"})
			if chance(t, "mgfs", 60) {
				c.Meta = "fs"
			}
		}
		c.PauseAt = rapid.IntRange(0, 3).Draw(t, "pauseat")
		c.QLife = pick(t, "qlife", []string{"", "started", "stopped", "stopped"})
		if c.Mode == "span" && chance(t, "manyfiles", 45) {
			// many candidate files (more than any internal page size), the query
			// paused early in its iteration while a merge rewrites later files
			c.Steps = nil
			for i := rapid.IntRange(66, 140).Draw(t, "nfiles"); i > 0; i-- {
				c.Steps = append(c.Steps, c14Step{Op: "ingest", Rows: 1, Parts: pick(t, "mparts", []int{1, 2, 0})})
			}
			c.Steps = append(c.Steps, c14Step{Op: "merge"})
			c.PauseAt = pick(t, "mpause", []int{0, 1, 10, 40, 63, 64, 70})
			if chance(t, "manymem", 60) {
				c.Meta = "mem"
			}
		}
		c.SpanWhat = pick(t, "spanwhat", []string{"merge", "merge", "flush"})
		c.Writers = rapid.IntRange(1, 3).Draw(t, "writers")
		c.Queriers = rapid.IntRange(1, 3).Draw(t, "queriers")
		c.Merger = rapid.Bool().Draw(t, "merger")
		c.Ms = pick(t, "ms", []int{40, 80, 150})
		c.Procs = pick(t, "procs", []int{0, 2, 4})
		return c
	})
}

type c14Ledger struct {
	mu       sync.Mutex
	ingested map[int]bool
	acked    map[int]bool
	next     int
}

func (l *c14Ledger) newRows(n, parts int, group ...int) ([]map[string]any, []int) {
	g := 0
	if len(group) > 0 {
		g = group[0]
	}
	l.mu.Lock()
	defer l.mu.Unlock()
	var rows []map[string]any
	var ids []int
	for i := 0; i < n; i++ {
		l.next++
		id := l.next
		l.ingested[id] = true
		p := fmt.Sprintf("p%d", id%maxInt(parts, 1))
		if parts == 0 {
			// a partition of its own: this file has no mergeable partner, so a
			// Merge leaves it alone while it rewrites the others
			p = fmt.Sprintf("solo%d", id-i)
		}
		if g > 0 && parts != 0 {
			p = fmt.Sprintf("g%d%s", g, p)
		}
		rows = append(rows, map[string]any{"id": id, "p": p, "msg": "row"})
		ids = append(ids, id)
	}
	return rows, ids
}

func (l *c14Ledger) ack(ids []int) {
	l.mu.Lock()
	for _, id := range ids {
		l.acked[id] = true
	}
	l.mu.Unlock()
}

func (l *c14Ledger) ackedSnapshot() map[int]bool {
	l.mu.Lock()
	defer l.mu.Unlock()
	out := make(map[int]bool, len(l.acked))
	for id := range l.acked {
		out[id] = true
	}
	return out
}

type c14Verdict struct {
	missing []int
	dups    []int
	unknown []int
	err     error
}

func (v c14Verdict) bad() bool { return len(v.missing)+len(v.dups)+len(v.unknown) > 0 }

// c14Probe runs one complete match-all query on eng and compares it with the
// ledger: before = ids acknowledged before the query started.
var c14ProbeSeq int64

func c14Probe(eng *bs.BloomSearchEngine, l *c14Ledger, before map[int]bool) (c14Verdict, *Violation) {
	// every third probe is preceded by a narrowing (partition-prefiltered) query on
	// the same engine: what a query reads must not change what later queries see
	if atomic.AddInt64(&c14ProbeSeq, 1)%3 == 0 {
		pq := bs.NewQuery().MatchPrefilter(bs.Partition(bs.PartitionEquals(fmt.Sprintf("p%d", atomic.LoadInt64(&c14ProbeSeq)%3)))).Build()
		if pres, err := eng.Query(context.Background(), pq); err == nil {
			collectResults(pres, 30*time.Second)
			pres.Close()
		}
	}
	res, err := eng.Query(context.Background(), nil)
	if err != nil {
		return c14Verdict{}, violf("match-all query rejected: %v", err)
	}
	rows, rerr, ok := collectResults(res, 30*time.Second)
	res.Close()
	if !ok {
		return c14Verdict{}, violf("query did not finish within 30s")
	}
	out := c14Verdict{err: rerr}
	seen := map[int]int{}
	l.mu.Lock()
	for _, r := range rows {
		id, ok := rowID(r)
		if !ok || !l.ingested[id] {
			out.unknown = append(out.unknown, id)
			continue
		}
		seen[id]++
	}
	l.mu.Unlock()
	if rerr != nil {
		// an error imposes nothing on content (beyond never inventing rows)
		sort.Ints(out.unknown)
		return out, nil
	}
	for id := range before {
		if seen[id] == 0 {
			out.missing = append(out.missing, id)
		}
	}
	for id, n := range seen {
		if n > 1 {
			out.dups = append(out.dups, id)
		}
	}
	sort.Ints(out.missing)
	sort.Ints(out.dups)
	sort.Ints(out.unknown)
	return out, nil
}

func c14Stores(meta string) (bs.DataStore, bs.MetaStore, func(), error) {
	if meta == "fs" {
		ds, ms, _, _, cleanup, err := newStores("fs", "fs")
		return ds, ms, cleanup, err
	}
	ds, ms, _, _, cleanup, err := newStores("mem", "mem")
	return ds, ms, cleanup, err
}

func c14Config() bs.BloomSearchEngineConfig {
	cfg := bs.DefaultBloomSearchEngineConfig()
	cfg.MaxBufferedTime = time.Hour
	cfg.PartitionFunc = func(row map[string]any) string { s, _ := row["p"].(string); return s }
	return cfg
}

// classify turns a bad verdict into a violation, attributing the two windows
// of FileSystemDataStore-as-MetaStore to their known-finding keys when the
// affected ids are exactly rows of the Merge that is in progress.
func c14Classify(c c14Case, v c14Verdict, where string, mergeSourceIDs map[int]bool, inMerge bool) *Violation {
	if len(v.unknown) > 0 {
		return violf("%s: query (Err=%v) returned rows that were never ingested: ids %v", where, v.err, v.unknown)
	}
	if v.err != nil || !v.bad() {
		return nil
	}
	subset := func(ids []int) bool {
		for _, id := range ids {
			if !mergeSourceIDs[id] {
				return false
			}
		}
		return true
	}
	if c.Meta == "fs" && inMerge {
		if len(v.dups) > 0 && len(v.missing) == 0 && subset(v.dups) {
			return violKey("fs-metastore-merge-window-duplicates", "%s: query finished with Err=nil but returned ids %v twice: with FileSystemDataStore as MetaStore the merge output is visible to the directory scan before the merge's source files are removed", where, v.dups)
		}
		if len(v.missing) > 0 && len(v.dups) == 0 && subset(v.missing) {
			return violKey("fs-metastore-scan-skips-removed-sources", "%s: query finished with Err=nil but omitted acknowledged ids %v: with FileSystemDataStore as MetaStore a directory scan that listed the files before the merge committed silently skips the removed source files and never sees the merge output", where, v.missing)
		}
	}
	return violf("%s: query finished with Err=nil but acknowledged-before-start ids missing %v, ids returned more than once %v (MetaStore %s)", where, v.missing, v.dups, c.Meta)
}

func handleC14(v *Violation) *Violation {
	if v == nil {
		return nil
	}
	if isKnown(envProp, v.Key) {
		Ev.Known(v.Key)
		Ev.Excluded(1)
		return nil
	}
	return v
}

func idsOfWorld(ds bs.DataStore, ms bs.MetaStore) map[int]bool {
	out := map[int]bool{}
	files, err := ReadWorld(ds, ms)
	if err != nil {
		return out
	}
	for _, f := range files {
		for _, b := range f.Blocks {
			for _, id := range b.IDs {
				out[id] = true
			}
		}
	}
	return out
}

func runC14(c c14Case) *Violation {
	Ev.Eval(1)
	if c.Procs > 0 {
		prev := setProcs(c.Procs)
		defer setProcs(prev)
	}
	ds, ms, cleanup, err := c14Stores(c.Meta)
	if err != nil {
		infra("stores: %v", err)
		return nil
	}
	defer cleanup()
	l := &c14Ledger{ingested: map[int]bool{}, acked: map[int]bool{}}
	ctx := context.Background()
	Ev.Class("mode=" + c.Mode + "/" + c.Meta)

	switch c.Mode {
	case "window":
		tr := NewTrace(ds, ms)
		probeEng, err := bs.NewBloomSearchEngine(c14Config(), ms, ds)
		if err != nil {
			return violf("config: %v", err)
		}
		var viol *Violation
		var inMerge bool
		var srcIDs map[int]bool
		probes, inWindow := 0, 0
		probe := func(ci *CallInfo, phase string) {
			if viol != nil {
				return
			}
			switch ci.Kind {
			case "CreateFile", "Close", "Update", "Tombstone", "Abort":
			default:
				return
			}
			probes++
			if ci.Kind == "Update" || ci.Kind == "Tombstone" || (ci.Kind == "Close" && phase == "after") {
				inWindow++
			}
			v, pv := c14Probe(probeEng, l, l.ackedSnapshot())
			if pv != nil {
				viol = pv
				return
			}
			where := fmt.Sprintf("probe query %s %s #%d (merge in progress: %v)", phase, ci.Kind, ci.KindSeq, inMerge)
			viol = handleC14(c14Classify(c, v, where, srcIDs, inMerge))
		}
		var mergeCancel context.CancelFunc
		var cancelKind string
		var cancelN int
		cancelSeen := map[string]int{}
		var failKind string
		var failN, failSeen int
		tr.Before = func(ci *CallInfo) error {
			if inMerge && cancelKind != "" && ci.Kind == cancelKind {
				if cancelSeen[ci.Kind] == cancelN && mergeCancel != nil {
					mergeCancel()
				}
				cancelSeen[ci.Kind]++
			}
			probe(ci, "before")
			if inMerge && failKind != "" && ci.Kind == failKind {
				n := failSeen
				failSeen++
				if n == failN {
					return fmt.Errorf("%w (merge %s #%d)", errInjected, ci.Kind, n)
				}
			}
			return nil
		}
		tr.After = func(ci *CallInfo, _ error) { probe(ci, "after") }
		eng, err := bs.NewBloomSearchEngine(c14Config(), tr, tr)
		if err != nil {
			return violf("config: %v", err)
		}
		eng.Start()
		defer func() {
			sctx, cancel := context.WithTimeout(ctx, 20*time.Second)
			eng.Stop(sctx)
			cancel()
		}()
		for _, st := range c.Steps {
			switch st.Op {
			case "ingest":
				rows, ids := l.newRows(st.Rows, st.Parts, st.Group)
				done := make(chan error, 1)
				if err := eng.IngestRows(ctx, rows, done); err != nil {
					return violf("IngestRows: %v", err)
				}
				eng.Flush(ctx)
				if err := <-done; err == nil {
					l.ack(ids)
				}
			case "merge":
				srcIDs = idsOfWorld(ds, ms)
				mctx, mcancel := context.WithCancel(ctx)
				mergeCancel, cancelKind, cancelN, cancelSeen = mcancel, st.CancelKind, st.CancelN, map[string]int{}
				failKind, failN, failSeen = st.FailKind, st.FailN, 0
				inMerge = true
				_, merr := eng.Merge(mctx)
				inMerge = false
				mcancel()
				cancelKind, failKind = "", ""
				if st.FailKind != "" && merr != nil {
					Ev.Class("window:merge-failed-on-an-injected-store-failure")
				}
				if st.CancelKind != "" && merr != nil {
					Ev.Class("window:merge-context-cancelled-mid-merge")
				}
			}
			if viol != nil {
				return viol
			}
			// whatever the step did (a Merge may have failed or been cancelled), it
			// is over now: a quiet query sees every acknowledged row exactly once
			if v, pv := c14Probe(probeEng, l, l.ackedSnapshot()); pv != nil {
				return pv
			} else if v2 := handleC14(c14Classify(c, v, fmt.Sprintf("probe query after step %s had returned", st.Op), nil, false)); v2 != nil {
				return v2
			}
		}
		Ev.Add("probe_queries", int64(probes))
		if inWindow > 0 {
			Ev.NonTrivial(jsonKey(c))
			if Ev.WantSample() {
				Ev.Sample(map[string]any{"case": c, "probe_queries": probes, "inside_commit_windows": inWindow})
			}
		}
		return viol

	case "span":
		// build the population first
		build, err := bs.NewBloomSearchEngine(c14Config(), ms, ds)
		if err != nil {
			return violf("config: %v", err)
		}
		build.Start()
		defer func() {
			sctx, cancel := context.WithTimeout(ctx, 20*time.Second)
			build.Stop(sctx)
			cancel()
		}()
		ingest := func(rows, parts int) *Violation {
			r, ids := l.newRows(rows, parts)
			done := make(chan error, 1)
			if err := build.IngestRows(ctx, r, done); err != nil {
				return violf("IngestRows: %v", err)
			}
			build.Flush(ctx)
			if err := <-done; err == nil {
				l.ack(ids)
			}
			return nil
		}
		for _, st := range c.Steps {
			if st.Op == "ingest" {
				if v := ingest(st.Rows, st.Parts); v != nil {
					return v
				}
			}
		}
		// the query whose iteration is paused
		tr := NewTrace(ds, ms)
		gate := make(chan struct{})
		entered := make(chan struct{})
		var once sync.Once
		tr.Before = func(ci *CallInfo) error {
			if ci.Kind == "IterYield" && ci.KindSeq == c.PauseAt {
				once.Do(func() { close(entered) })
				select {
				case <-gate:
				case <-ci.Ctx.Done():
					return ci.Ctx.Err()
				}
			}
			return nil
		}
		qeng, err := bs.NewBloomSearchEngine(c14Config(), tr, tr)
		if err != nil {
			return violf("config: %v", err)
		}
		switch c.QLife {
		case "started":
			qeng.Start()
			defer func() {
				sctx, cancel := context.WithTimeout(ctx, 20*time.Second)
				qeng.Stop(sctx)
				cancel()
			}()
		case "stopped":
			qeng.Start()
			sctx, cancel := context.WithTimeout(ctx, 20*time.Second)
			qeng.Stop(sctx)
			cancel()
		}
		before := l.ackedSnapshot()
		srcIDs := idsOfWorld(ds, ms)
		type out struct {
			v  c14Verdict
			pv *Violation
		}
		resCh := make(chan out, 1)
		go func() {
			v, pv := c14Probe(qeng, l, before)
			resCh <- out{v, pv}
		}()
		spanned := false
		select {
		case <-entered:
			spanned = true
			if c.SpanWhat == "merge" {
				build.Merge(ctx)
			} else {
				if v := ingest(2, 2); v != nil {
					close(gate)
					return v
				}
			}
		case o := <-resCh:
			// fewer candidates than PauseAt: the query simply finished
			resCh <- o
		case <-time.After(10 * time.Second):
			close(gate)
			return violf("paused query neither reached its pause point nor finished within 10s")
		}
		close(gate)
		o := <-resCh
		if o.pv != nil {
			return o.pv
		}
		where := fmt.Sprintf("query whose MetaStore iteration was paused at candidate %d while a %s committed", c.PauseAt, c.SpanWhat)
		if v := handleC14(c14Classify(c, o.v, where, srcIDs, spanned && c.SpanWhat == "merge")); v != nil {
			return v
		}
		if spanned {
			Ev.Class("commit-inside-query:" + c.SpanWhat)
			Ev.Class("span:query-engine=" + c.QLife)
			if len(c.Steps) > 64 {
				Ev.Class("span:more-than-64-files")
			}
			if o.v.err != nil {
				Ev.Class("spanned-query-reported-error")
			}
			Ev.NonTrivial(jsonKey(c))
			if Ev.WantSample() {
				Ev.Sample(map[string]any{"case": c, "query_err": fmt.Sprint(o.v.err)})
			}
		}
		return nil

	default: // stress
		eng, err := bs.NewBloomSearchEngine(c14Config(), ms, ds)
		if err != nil {
			return violf("config: %v", err)
		}
		eng.Start()
		defer func() {
			sctx, cancel := context.WithTimeout(ctx, 20*time.Second)
			eng.Stop(sctx)
			cancel()
		}()
		stop := make(chan struct{})
		var wg sync.WaitGroup
		var mu sync.Mutex
		var viol *Violation
		var merges, overlapped int
		var mergeMu sync.Mutex
		mergeActive := 0
		mergeEpoch := 0
		for w := 0; w < c.Writers; w++ {
			wg.Add(1)
			go func() {
				defer wg.Done()
				for {
					select {
					case <-stop:
						return
					default:
					}
					rows, ids := l.newRows(2, 2)
					done := make(chan error, 1)
					if err := eng.IngestRows(ctx, rows, done); err != nil {
						return
					}
					eng.Flush(ctx)
					if err := <-done; err == nil {
						l.ack(ids)
					}
				}
			}()
		}
		if c.Merger {
			wg.Add(1)
			go func() {
				defer wg.Done()
				for {
					select {
					case <-stop:
						return
					default:
					}
					mergeMu.Lock()
					mergeActive++
					mergeEpoch++
					mergeMu.Unlock()
					eng.Merge(ctx)
					mergeMu.Lock()
					mergeActive--
					mergeEpoch++
					merges++
					mergeMu.Unlock()
					time.Sleep(time.Millisecond)
				}
			}()
		}
		queries := 0
		for q := 0; q < c.Queriers; q++ {
			wg.Add(1)
			go func() {
				defer wg.Done()
				for {
					select {
					case <-stop:
						return
					default:
					}
					mergeMu.Lock()
					e0, a0 := mergeEpoch, mergeActive
					mergeMu.Unlock()
					before := l.ackedSnapshot()
					v, pv := c14Probe(eng, l, before)
					mergeMu.Lock()
					overlap := a0 > 0 || mergeEpoch != e0
					mergeMu.Unlock()
					mu.Lock()
					queries++
					if overlap {
						overlapped++
					}
					if viol == nil {
						if pv != nil {
							viol = pv
						} else if len(v.unknown) > 0 {
							viol = violf("stress: query returned never-ingested ids %v", v.unknown)
						} else if v.err == nil && v.bad() {
							if c.Meta == "fs" && overlap {
								// a Merge overlapped this query on the filesystem MetaStore: the two
								// known windows cannot be told apart from here; the gated phases
								// re-observe them precisely, this one is excluded and counted
								Ev.Excluded(1)
							} else {
								viol = violf("stress: query finished with Err=nil but acknowledged-before-start ids missing %v, returned more than once %v (MetaStore %s, merge overlapped: %v)", v.missing, v.dups, c.Meta, overlap)
							}
						}
					}
					mu.Unlock()
				}
			}()
		}
		time.Sleep(time.Duration(c.Ms) * time.Millisecond)
		close(stop)
		wg.Wait()
		if viol != nil {
			return viol
		}
		Ev.Add("stress_queries", int64(queries))
		if overlapped > 0 {
			Ev.Class("stress:query-overlapped-a-merge")
			Ev.NonTrivial(jsonKey(c))
		}
		return nil
	}
}

func TestC14(t *testing.T) {
	Ev.Rule = "case = (MemoryMetaStore | FileSystemDataStore as MetaStore) x one of: window — a sequential history of flushes and merges in which a complete match-all probe query runs before and after EVERY CreateFile/Close/Abort/Update/TombstoneFile call of the flush or merge (inside every publish, commit and cleanup window); span — a query whose MetaStore iteration is paused after 0-3 candidates (in a third of the span cases: 66-140 single-row files, paused at candidate 0-70) while a whole Merge (or flush) commits, then resumed; the querying engine is never started, started, or already stopped; stress — 1-3 writers, optional merger and 1-3 queriers running freely for 40-150 ms. Oracle: Err()==nil => every id acknowledged before the query started exactly once, no id twice; never an id that was not ingested; Err!=nil imposes nothing else. Violations on the filesystem MetaStore whose affected ids are exactly rows of the Merge in progress are attributed to the two listed known findings (duplicates in the publish window, omissions when the scan listed the directory before the commit); everything else is a violation. Non-trivial: a probe ran inside a commit window, or a commit happened inside the paused query, or a stress query overlapped a merge; distinct by case."
	Ev.Assumptions = []string{"free-running interleavings are sampled, not owned", "on the filesystem MetaStore, stress queries that overlap a Merge and disagree are excluded (the gated phases judge that window precisely)"}
	runChecks(t, "snapshots", 150, 24000, genC14(), runC14)
}

var _ = strings.Contains
var _ = rapid.Bool

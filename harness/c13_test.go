package harness

// C13 — merge is all-or-nothing and commits only durable output.
// Fault enumeration: a generated multi-group population is copied, Merge is run
// fault-free on one copy to number every store call, then once per call
// position on a fresh copy with a failure injected there.

import (
	"encoding/json"
	"bytes"
	"context"
	"errors"
	"fmt"
	"sort"
	"sync"
	"testing"
	"time"

	bs "github.com/danthegoodman1/bloomsearch"
	"pgregory.net/rapid"
)

type c13Case struct {
	Hist     History `json:"hist"`
	MergeCfg EngCfg  `json:"mergecfg"`
	// Scan: the Merge runs against a MetaStore that is the DataStore itself
	// (every complete file the store holds is referenced; publish at Close):
	// an output that a failed Merge leaves behind is then a referenced file
	Scan bool `json:"scan,omitempty"`
}

var c13Kinds = map[string]bool{"IterStart": true, "IterYield": true, "CreateFile": true, "OpenFile": true, "Read": true, "Seek": true, "Write": true, "Close": true, "Update": true, "Tombstone": true, "Abort": true}

func genC13() *rapid.Generator[c13Case] {
	return rapid.Custom(func(t *rapid.T) c13Case {
		o := mergeHeavyOpts
		o.FS = false
		o.Ext = chance(t, "ext", 30)
		o.GroupedParts = chance(t, "grouped", 70)
		h := drawHistory(t, o)
		h.Meta, h.Data = "mem", "mem"
		if chance(t, "noabort", 30) {
			h.Data = "mem-noabort"
		}
		// several partitions confined to their own files => several merge groups
		for len(h.Steps) > 0 && h.Steps[len(h.Steps)-1].Op == "merge" {
			h.Steps = h.Steps[:len(h.Steps)-1]
		}
		last := h.Cfg
		for _, s := range h.Steps {
			if s.Op == "restart" {
				last = *s.Cfg
			}
		}
		c := mergeFriendly(t, last)
		c.MaxMerge = pick(t, "maxmerge", []int{10, 6, 4})
		c.MaxFileSize = pick(t, "maxfile", []int{10 << 30, 3000, 1200})
		return c13Case{Hist: h, MergeCfg: c, Scan: chance(t, "scan", 35)}
	})
}

type c13State struct {
	ptrs  []string
	rows  map[int]int
	bytes map[int][]byte
	files map[string][]byte
	meta  map[string]string // pointer -> JSON of the block metadata the MetaStore serves for it
}

func snapshotState(ds *MemDataStore, ms bs.MetaStore) (*c13State, error) {
	files, err := ReadWorld(ds, ms)
	if err != nil {
		return nil, err
	}
	st := &c13State{rows: map[int]int{}, bytes: map[int][]byte{}, files: ds.Files(), meta: map[string]string{}}
	for _, f := range files {
		st.ptrs = append(st.ptrs, f.Ptr)
		if mb, err := json.Marshal(f.Meta.DataBlocks); err == nil {
			st.meta[f.Ptr] = string(mb)
		}
		for _, b := range f.Blocks {
			for i, id := range b.IDs {
				st.rows[id]++
				st.bytes[id] = b.Rows[i]
			}
		}
	}
	sort.Strings(st.ptrs)
	return st, nil
}

func cloneMeta(ms bs.MetaStore) (*bs.MemoryMetaStore, error) {
	out := bs.NewMemoryMetaStore()
	var writes []bs.WriteOperation
	for f, err := range ms.GetMaybeFilesForQuery(context.Background(), nil) {
		if err != nil {
			return nil, err
		}
		m := f.Metadata
		writes = append(writes, bs.WriteOperation{FileMetadata: &m, FilePointerBytes: f.PointerBytes})
	}
	if err := out.Update(context.Background(), writes, nil); err != nil {
		return nil, err
	}
	return out, nil
}

type c13Run struct {
	calls  int
	kindAt []string
	fired  map[int]string
	log    []CallRec
	stats  *bs.MergeStats
	err    error
	after  *c13State
	ds     *MemDataStore
}

func runMergeWithPlan(w *World, cfg EngCfg, plan map[int]string, scan ...bool) (*c13Run, *Violation) {
	ds := w.MemData.Clone()
	var ms bs.MetaStore
	if len(scan) > 0 && scan[0] {
		ms = &ScanMetaStore{DS: ds}
	} else {
		mm, err := cloneMeta(w.Meta)
		if err != nil {
			infra("clone meta: %v", err)
			return nil, nil
		}
		ms = mm
	}
	r := &c13Run{fired: map[int]string{}, ds: ds}
	tr := NewTrace(ds, ms)
	tr.Before = func(ci *CallInfo) error {
		if !c13Kinds[ci.Kind] {
			return nil
		}
		idx := r.calls
		r.calls++
		r.kindAt = append(r.kindAt, ci.Kind)
		mode, ok := plan[idx]
		if !ok {
			return nil
		}
		r.fired[idx] = ci.Kind + ":" + mode
		switch mode {
		case "short":
			ci.ShortWrite = ci.Size / 2
		case "after":
			ci.FailAfter = true
		}
		return fmt.Errorf("%w (call %d %s %s)", errInjected, idx, ci.Kind, mode)
	}
	eng, err := bs.NewBloomSearchEngine(cfg.Build(), tr, tr)
	if err != nil {
		return nil, violf("config rejected: %v", err)
	}
	done := make(chan struct{})
	go func() {
		r.stats, r.err = eng.Merge(context.Background())
		close(done)
	}()
	select {
	case <-done:
	case <-time.After(60 * time.Second):
		return nil, violf("Merge did not return within 60s (plan %v fired %v)", plan, r.fired)
	}
	r.log = tr.Calls()
	st, err := snapshotState(ds, ms)
	if err != nil {
		return r, violf("after Merge (err=%v; plan %v fired %v) the referenced files cannot be read back: %v", r.err, plan, r.fired, err)
	}
	r.after = st
	return r, nil
}

func sameStrings(a, b []string) bool {
	if len(a) != len(b) {
		return false
	}
	for i := range a {
		if a[i] != b[i] {
			return false
		}
	}
	return true
}

func judgeC13(before *c13State, base *c13Run, r *c13Run, plan map[int]string) *Violation {
	desc := fmt.Sprintf("fault plan %v fired %v, Merge returned err=%v", plan, r.fired, r.err)
	// content is preserved in every outcome
	for id, n := range before.rows {
		if r.after.rows[id] != n {
			return violf("row id %d is stored %d times after the Merge, %d before (%s)", id, r.after.rows[id], n, desc)
		}
		if !bytes.Equal(before.bytes[id], r.after.bytes[id]) {
			return violf("row id %d changed bytes across the Merge (%s)", id, desc)
		}
	}
	for id, n := range r.after.rows {
		if before.rows[id] != n {
			return violf("row id %d is stored %d times after the Merge, %d before (%s)", id, n, before.rows[id], desc)
		}
	}
	// find the Update call and its outcome
	var upd *CallRec
	updIdx := -1
	for i := range r.log {
		if r.log[i].Kind == "Update" {
			upd = &r.log[i]
			updIdx = i
		}
	}
	committed := upd != nil && upd.Err == ""
	postCommit := errors.Is(r.err, bs.ErrPostCommitCleanup)
	if !committed {
		// nothing may have changed
		if !sameStrings(before.ptrs, r.after.ptrs) {
			return violf("Merge did not commit but the set of referenced files changed: %v -> %v (%s)", before.ptrs, r.after.ptrs, desc)
		}
		for _, p := range before.ptrs {
			got, ok := r.ds.Get(p)
			if !ok || !bytes.Equal(got, before.files[p]) {
				return violf("Merge did not commit but source file %s is gone or changed (%s)", p, desc)
			}
			if before.meta[p] != r.after.meta[p] {
				return violf("Merge did not commit but the block metadata the MetaStore serves for file %s changed (queries prune by it):\nbefore %s\nafter  %s\n(%s)", p, shortJSON(before.meta[p], 700), shortJSON(r.after.meta[p], 700), desc)
			}
		}
		for _, c := range r.log {
			if c.Kind == "Tombstone" && c.Err == "" {
				for _, p := range before.ptrs {
					if c.Ptr == p {
						return violf("Merge did not commit but tombstoned source file %s (%s)", p, desc)
					}
				}
			}
		}
		if r.err == nil && len(base.after.ptrs) > 0 && !sameStrings(base.after.ptrs, before.ptrs) && len(r.fired) > 0 {
			return violf("Merge returned nil without committing although a store call failed and the fault-free run does merge (%s)", desc)
		}
		if postCommit {
			return violf("Merge reports ErrPostCommitCleanup but never committed (%s)", desc)
		}
		return nil
	}
	// committed: pointers = before - deletes + writes
	want := map[string]bool{}
	for _, p := range before.ptrs {
		want[p] = true
	}
	writes, deletes := upd.Ptrs[:upd.Writes], upd.Ptrs[upd.Writes:]
	for _, p := range deletes {
		delete(want, p)
	}
	for _, p := range writes {
		want[p] = true
	}
	var wantList []string
	for p := range want {
		wantList = append(wantList, p)
	}
	sort.Strings(wantList)
	if !sameStrings(wantList, r.after.ptrs) {
		return violf("after a committed Merge the referenced files are %v, expected %v (%s)", r.after.ptrs, wantList, desc)
	}
	// durable output: every committed output was closed successfully before the Update
	closedOK := map[string]bool{}
	for i := 0; i < updIdx; i++ {
		if c := r.log[i]; c.Kind == "Close" && c.Err == "" {
			closedOK[c.Ptr] = true
		}
	}
	for _, p := range writes {
		if !closedOK[p] {
			return violf("Merge committed output %s whose writer Close did not succeed before the commit (%s)", p, desc)
		}
	}
	// durable output is complete output: every committed file is a whole bloom
	// file (its own footer parses, and every Write made to it succeeded)
	for _, p := range writes {
		raw, ok := r.ds.Get(p)
		if !ok {
			return violf("Merge committed output %s which is not in the DataStore (%s)", p, desc)
		}
		if _, _, err := bs.ReadFileMetadata(bytes.NewReader(raw)); err != nil {
			return violf("Merge committed output %s, which does not parse as a bloom file (%v): not durable output (%s)", p, err, desc)
		}
		for i := 0; i < updIdx; i++ {
			if c := r.log[i]; c.Kind == "Write" && c.Ptr == p && c.Err != "" {
				return violf("Merge committed output %s although a Write to it had failed (%s) (%s)", p, c.Err, desc)
			}
		}
	}
	// sources tombstoned only after the commit
	srcFailed := false
	for i, c := range r.log {
		if c.Kind != "Tombstone" {
			continue
		}
		for _, p := range deletes {
			if c.Ptr == p {
				if i < updIdx {
					return violf("source %s was tombstoned before the commit (%s)", p, desc)
				}
				if c.Err != "" {
					srcFailed = true
				}
			}
		}
	}
	if r.err != nil && !postCommit {
		return violf("Merge committed (MetaStore.Update succeeded) but returned a plain error: %v (%s)", r.err, desc)
	}
	if postCommit != srcFailed {
		return violf("ErrPostCommitCleanup reported=%v but a source tombstone failed=%v (%s)", postCommit, srcFailed, desc)
	}
	if postCommit && r.stats == nil {
		return violf("ErrPostCommitCleanup without the MergeStats (%s)", desc)
	}
	return nil
}

func c13Concurrency(w *World, cfg EngCfg) *Violation {
	ds := w.MemData.Clone()
	ms, err := cloneMeta(w.Meta)
	if err != nil {
		return nil
	}
	tr := NewTrace(ds, ms)
	gate := make(chan struct{})
	entered := make(chan struct{})
	var once sync.Once
	// gate2 holds the SECOND Merge at the start of its MetaStore iteration until
	// the first Merge has finished: a correct single-flight Merge never gets
	// there (it is refused before planning); one that plans before taking the
	// lock would otherwise race ahead with a stale candidate list.
	gate2 := make(chan struct{})
	var iterStarts int32
	var imu sync.Mutex
	tr.Before = func(ci *CallInfo) error {
		if ci.Kind == "CreateFile" {
			first := false
			once.Do(func() { first = true })
			if first {
				close(entered)
				<-gate
			}
		}
		if ci.Kind == "IterEnd" {
			imu.Lock()
			iterStarts++
			n := iterStarts
			imu.Unlock()
			if n == 2 {
				<-gate2
			}
		}
		return nil
	}
	eng, err := bs.NewBloomSearchEngine(cfg.Build(), tr, tr)
	if err != nil {
		return nil
	}
	var err1 error
	done1 := make(chan struct{})
	go func() { _, err1 = eng.Merge(context.Background()); close(done1) }()
	select {
	case <-entered:
	case <-done1:
		return nil // nothing to merge: no CreateFile
	case <-time.After(30 * time.Second):
		close(gate)
		return violf("first Merge neither reached CreateFile nor returned within 30s")
	}
	// While the first Merge is held inside CreateFile, several more Merge calls
	// are made one after the other (a rejected caller must not disturb the
	// single-flight state for the next one); callers that do not come back
	// within 300 ms are left running and collected after the first finished.
	const extraCalls = 3
	errs := make([]error, extraCalls)
	dones := make([]chan struct{}, extraCalls)
	early := make([]bool, extraCalls)
	for i := 0; i < extraCalls; i++ {
		dones[i] = make(chan struct{})
		go func(i int) { _, errs[i] = eng.Merge(context.Background()); close(dones[i]) }(i)
		select {
		case <-dones[i]:
			early[i] = true
		case <-time.After(300 * time.Millisecond):
		}
	}
	close(gate)
	<-done1
	close(gate2)
	for i := 0; i < extraCalls; i++ {
		select {
		case <-dones[i]:
		case <-time.After(60 * time.Second):
			return violf("concurrent Merge call #%d did not return within 60s after the first finished", i+2)
		}
	}
	Ev.Class("concurrent-merge-checked")
	for i := 0; i < extraCalls; i++ {
		if !errors.Is(errs[i], bs.ErrMergeInProgress) {
			return violf("Merge call #%d, made while the first Merge was inside CreateFile (after %d earlier concurrent calls had been refused), returned %v instead of ErrMergeInProgress (returned before the first finished: %v)", i+2, i, errs[i], early[i])
		}
	}
	if err1 != nil {
		return violf("the first Merge failed on healthy stores: %v", err1)
	}
	return nil
}

func runC13(c c13Case) *Violation {
	w, err := RunHistory(c.Hist)
	if err != nil {
		return violf("history failed on healthy stores: %v", err)
	}
	defer w.Close()
	before, err := snapshotState(w.MemData, w.Meta)
	if err != nil {
		return violf("population unreadable: %v", err)
	}
	base, v := runMergeWithPlan(w, c.MergeCfg, nil, c.Scan)
	if v != nil {
		return v
	}
	if base == nil {
		return nil
	}
	Ev.Eval(1)
	if base.err != nil {
		return violf("fault-free Merge failed: %v", base.err)
	}
	if v := judgeC13(before, base, base, nil); v != nil {
		return v
	}
	groups := 0
	for _, c := range base.log {
		if c.Kind == "CreateFile" {
			groups++
		}
	}
	if groups >= 2 {
		Ev.Class("multi-group-merge")
	}
	if groups == 0 {
		Ev.Class("nothing-to-merge")
	}
	if v := c13Concurrency(w, c.MergeCfg); v != nil {
		return v
	}
	firstCreate, secondCreate := -1, -1
	for i, k := range base.kindAt {
		if k == "CreateFile" {
			if firstCreate < 0 {
				firstCreate = i
			} else if secondCreate < 0 {
				secondCreate = i
			}
		}
	}
	updPos := -1
	for i, k := range base.kindAt {
		if k == "Update" {
			updPos = i
		}
	}
	try := func(plan map[int]string, pos int) *Violation {
		r, v := runMergeWithPlan(w, c.MergeCfg, plan, c.Scan)
		if v != nil {
			return v
		}
		if r == nil {
			return nil
		}
		Ev.Eval(1)
		if v := judgeC13(before, base, r, plan); v != nil {
			return v
		}
		for _, f := range r.fired {
			Ev.Class("fault:" + f)
		}
		if len(r.fired) > 0 && ((secondCreate >= 0 && pos >= secondCreate) || (updPos >= 0 && pos > updPos)) {
			Ev.NonTrivial(hashStrings(jsonKey(c), fmt.Sprint(plan)))
			if Ev.WantSample() {
				Ev.Sample(map[string]any{"plan": plan, "fired": r.fired, "merge_err": fmt.Sprint(r.err), "groups": groups, "store_calls": base.calls})
			}
		}
		return nil
	}
	for pos := 0; pos < base.calls; pos++ {
		modes := []string{"before"}
		switch base.kindAt[pos] {
		case "Write":
			modes = append(modes, "short")
		case "Close":
			modes = append(modes, "after")
		}
		for _, m := range modes {
			if v := try(map[int]string{pos: m}, pos); v != nil {
				return v
			}
		}
	}
	Ev.ClassN("store-calls-numbered", base.calls)
	Ev.Set("exhaustive_within_population", true)
	return nil
}

func TestC13(t *testing.T) {
	Ev.Level = "fault_enumeration"
	Ev.Rule = "case = generated population (several engine configurations, partitions, optionally external-writer files) in a cloneable in-memory DataStore + MemoryMetaStore (in a third of the cases the Merge runs against a MetaStore that is the DataStore itself: every complete file the store holds is referenced, published at Close — the in-memory counterpart of the filesystem store used as MetaStore), and a merge configuration. Merge is run fault-free on a copy to number every store call (iterator start/yield, CreateFile, OpenFile, Read, Seek, Write, Close, Abort, Update, TombstoneFile); then ONCE PER POSITION on a fresh copy with a failure there (before the call; Write also short-write; Close also publish-then-fail). Oracle per run: row multiset and bytes preserved; if MetaStore.Update did not succeed: same pointers, source files byte-identical, the block metadata the MetaStore serves for every file unchanged, no source tombstoned, no ErrPostCommitCleanup, and nil is not returned when the fault-free run merges; if it succeeded: pointers = before - deletes + writes, every committed output's Close succeeded before the Update, no Write to it had failed and its own footer parses, sources tombstoned only after it, error is nil or wraps ErrPostCommitCleanup (with stats) exactly when a source tombstone failed. Plus per population: three further Merge calls made one after the other while the first is gated inside CreateFile all return ErrMergeInProgress. Non-trivial: the fault fired in the second or a later group, or after the Update; distinct by hash(case, plan)."
	Ev.Assumptions = []string{"MemoryMetaStore.Update is atomic", "faults are one-shot"}
	runChecks(t, "faults", 12, 3000, genC13(), runC13)
}

package harness

// C08 — Stop honours its contract: refuses new work, drains, obeys its deadline.
// Generated schedules around one Stop call: stores wedged at a generated call
// (ctx-honouring or ctx-ignoring; released right after Stop returns or only at
// the end), producers blocked on a small ingest buffer, an abandoned unbuffered
// done channel, and Stop contexts of several kinds (deadline, already
// cancelled, none, and a custom Context whose AfterFunc callbacks run late).

import (
	"context"
	"errors"
	"fmt"
	"sync"
	"testing"
	"time"

	bs "github.com/danthegoodman1/bloomsearch"
	"pgregory.net/rapid"
)

type c08Case struct {
	Cfg        EngCfg    `json:"cfg"`
	Gate       *GateSpec `json:"gate,omitempty"`
	Abandon    bool      `json:"abandon,omitempty"` // first batch carries an unbuffered done channel nobody receives from
	Producers  [][]int   `json:"producers"`         // per producer: pause (us) before each IngestRows
	StopCtx    string    `json:"stopctx"`           // deadline, late, cancelled, none
	DeadlineMs int       `json:"deadline_ms,omitempty"`
	LateMs     int       `json:"late_ms,omitempty"`
	StopDelay  int       `json:"stop_delay_us"`
	ReleaseUs  int       `json:"release_us"` // when the gate opens after Stop returned ("after-stop" gates)
	Procs      int       `json:"procs,omitempty"`
	// AbandonMore: the first batch of that many producers also carries an
	// abandoned unbuffered done channel (several undeliverable waiters at once)
	AbandonMore int `json:"abandon_more,omitempty"`
	// AbandonedAt[p][i]: producer p's i-th batch carries an abandoned unbuffered channel
	AbandonedAt [][]bool `json:"abandoned_at,omitempty"`
	// KindAt[p][i]: 0 = rows, 1 = an empty batch, 2 = a batch with an
	// unmarshalable row (both are answered by the ingest actor itself)
	KindAt [][]int `json:"kind_at,omitempty"`
	// Flushers: Flush callers that arrive after the wedge has formed and before
	// Stop (their requests queue behind the wedged flush)
	Flushers   int   `json:"flushers,omitempty"`
	FlushDelay []int `json:"flush_delay_us,omitempty"`
}

func genC08() *rapid.Generator[c08Case] {
	return rapid.Custom(func(t *rapid.T) c08Case {
		c := c08Case{}
		c.Cfg = EngCfg{Tokenizer: "default", Compression: "none", FPR: 0.01, RGRows: 10000, RGBytes: 10 << 20,
			BufRows: pick(t, "bufrows", []int{1, 2, 1000}), BufBytes: 1 << 20, BufTimeMs: 0,
			IngestBuf: pick(t, "ingestbuf", []int{1, 2, 8}), QueryConc: 4, Partition: "none", MaxFileSize: 10 << 30, MaxMerge: 10}
		wedge := unif(t, "wedge", 10)
		switch {
		case wedge < 6:
			c.Gate = &GateSpec{Kind: pick(t, "gatekind", []string{"CreateFile", "Write", "Close", "Update"}), N: unif(t, "gaten", 2),
				IgnoreCtx: rapid.Bool().Draw(t, "ignorectx"), Release: pick(t, "release", []string{"after-stop", "after-stop", "end"})}
		case wedge < 8:
			c.Abandon = true
		}
		np := rapid.IntRange(1, 3).Draw(t, "nproducers")
		for i := 0; i < np; i++ {
			k := rapid.IntRange(1, 6).Draw(t, "nbatches")
			var ps []int
			for j := 0; j < k; j++ {
				ps = append(ps, pick(t, "ppause", []int{0, 0, 200, 1000}))
			}
			c.Producers = append(c.Producers, ps)
		}
		wedged := c.Gate != nil || c.Abandon
		if wedged {
			c.StopCtx = pick(t, "stopctx", []string{"deadline", "deadline", "deadline", "late", "cancelled"})
		} else {
			c.StopCtx = pick(t, "stopctx2", []string{"none", "deadline", "cancelled", "late"})
		}
		c.DeadlineMs = pick(t, "deadline", []int{50, 100, 300})
		c.LateMs = pick(t, "late", []int{600, 900})
		c.StopDelay = pick(t, "stopdelay", []int{0, 500, 3000, 10000})
		c.ReleaseUs = pick(t, "releaseus", []int{0, 0, 2000, 20000})
		c.Procs = pick(t, "procs", []int{0, 2, 4})
		if wedged {
			if chance(t, "abandonmore", 35) {
				c.AbandonMore = rapid.IntRange(1, np).Draw(t, "nabandon")
			}
			switch unif(t, "shape", 10) {
			case 0, 1:
				// deep backlog of undeliverable waiters: every stage of the pipeline
				// (flush worker, flush queue, the ingest actor's pending enqueue, the
				// ingest buffer) holds requests, many of them with abandoned channels,
				// and producers are parked on the full ingest buffer when Stop arrives
				c.Cfg.BufRows = 1
				c.Cfg.IngestBuf = pick(t, "deepbuf", []int{1, 2})
				c.Producers, c.AbandonedAt, c.KindAt = nil, nil, nil
				for i := 0; i < 3; i++ {
					k := rapid.IntRange(3, 6).Draw(t, "deepn")
					ps := make([]int, k)
					ab := make([]bool, k)
					kd := make([]int, k)
					for j := range ab {
						ab[j] = chance(t, "deepab", 60)
						kd[j] = pick(t, "deepkind", []int{0, 0, 0, 1, 2})
					}
					c.Producers = append(c.Producers, ps)
					c.AbandonedAt = append(c.AbandonedAt, ab)
					c.KindAt = append(c.KindAt, kd)
				}
				c.StopCtx = pick(t, "deepstop", []string{"deadline", "deadline", "late"})
				c.StopDelay = pick(t, "deepdelay", []int{3000, 10000, 30000})
			case 2, 3:
				// quiet wedge: a single flush is wedged, nothing else is buffered or
				// queued, and Flush callers arrive: their ack-only requests sit in
				// the flush queue when the deadline fires
				c.Cfg.BufRows = 1
				c.Producers = [][]int{{0}}
				if c.Abandon {
					c.Producers = nil
				}
				if c.Gate != nil {
					c.Gate.N = 0
				}
				c.AbandonedAt, c.KindAt = nil, nil
				c.AbandonMore = 0
				c.StopDelay = pick(t, "quietdelay", []int{3000, 10000})
				c.StopCtx = "deadline"
				c.Flushers = rapid.IntRange(1, 2).Draw(t, "qflushers")
				for i := 0; i < c.Flushers; i++ {
					c.FlushDelay = append(c.FlushDelay, pick(t, "qflushdelay", []int{0, 300, 2000}))
				}
			}
			if c.Flushers == 0 && chance(t, "flushers", 40) {
				c.Flushers = rapid.IntRange(1, 2).Draw(t, "nflushers")
				for i := 0; i < c.Flushers; i++ {
					c.FlushDelay = append(c.FlushDelay, pick(t, "flushdelay", []int{0, 300, 2000}))
				}
			}
		}
		return c
	})
}

type c08Obs struct {
	stopErr      error
	stopDur      time.Duration
	stopTick     int64
	stopWall     time.Time
	deadline     time.Duration
	lateCtx      bool
	postIngest   error
	postFlush    error
	calls        []CallRec
	batches      []*WBatch
	abandoned    *WBatch
	queuedBehind bool
	unanswered   []int
	answeredAtStop map[int]bool
	wedgeFormed  bool
	flushRes     []c08FlushRes
}

type c08FlushRes struct {
	err      error
	returned bool
	started  bool // invoked after the wedge had formed and before Stop was called
}

func runC08Once(c c08Case) (*c08Obs, *Violation) {
	if c.Procs > 0 {
		prev := setProcs(c.Procs)
		defer setProcs(prev)
	}
	ds := NewMemDataStore(false)
	ms := bs.NewMemoryMetaStore()
	tr := NewTrace(ds, ms)
	script := StoreScript{}
	if c.Gate != nil {
		script.Gates = []GateSpec{*c.Gate}
	}
	ctl := NewStoreCtl(script)
	tr.Before = ctl.Hook
	eng, err := bs.NewBloomSearchEngine(c.Cfg.Build(), tr, tr)
	if err != nil {
		return nil, violf("config rejected: %v", err)
	}
	eng.Start()
	book := NewAckBook(tr.tick)
	defer book.StopReceivers()
	defer ctl.ReleaseAll()
	bg := context.Background()
	obs := &c08Obs{answeredAtStop: map[int]bool{}}

	if c.Abandon {
		b := book.NewBatch("good", "nil", 1, 1)
		b.Ch = make(chan error) // unbuffered, nobody ever receives
		b.ChanKind = "abandoned"
		if err := eng.IngestRows(bg, b.Rows, b.Ch); err != nil {
			return nil, violf("IngestRows: %v", err)
		}
		b.Accepted = true
		obs.abandoned = b
		// push it into a flush whose done-channel delivery stalls; Flush itself
		// waits behind that delivery, so it runs on its own goroutine
		go eng.Flush(bg)
		time.Sleep(2 * time.Millisecond)
	}

	var wg sync.WaitGroup
	for pi, pauses := range c.Producers {
		wg.Add(1)
		go func(pi int, pauses []int) {
			defer wg.Done()
			for bi, p := range pauses {
				time.Sleep(time.Duration(p) * time.Microsecond)
				kind := "good"
				if pi < len(c.KindAt) && bi < len(c.KindAt[pi]) {
					kind = []string{"good", "empty", "bad"}[c.KindAt[pi][bi]%3]
				}
				b := book.NewBatch(kind, "buf", 1, 1)
				if (bi == 0 && pi < c.AbandonMore) || (pi < len(c.AbandonedAt) && bi < len(c.AbandonedAt[pi]) && c.AbandonedAt[pi][bi]) {
					b.Ch = make(chan error) // unbuffered, nobody ever receives
					b.ChanKind = "abandoned"
				}
				ctx, cancel := context.WithTimeout(bg, 3*time.Second)
				b.CallT0 = tr.tick()
				err := eng.IngestRows(ctx, b.Rows, b.Ch)
				cancel()
				b.mu.Lock()
				b.CallT1, b.CallErr, b.Accepted = tr.tick(), err, err == nil
				b.mu.Unlock()
				if errors.Is(err, bs.ErrEngineStopped) {
					return
				}
			}
		}(pi, pauses)
	}
	// let the wedge form, then Stop
	if c.Gate != nil {
		select {
		case <-ctl.Entered[0]:
		case <-time.After(300 * time.Millisecond):
		}
	}
	if c.Gate != nil {
		obs.wedgeFormed = ctl.GateEntered(0)
	} else if c.Abandon {
		obs.wedgeFormed = true
	}
	obs.flushRes = make([]c08FlushRes, c.Flushers)
	var fmu sync.Mutex
	var fwg sync.WaitGroup
	for i := 0; i < c.Flushers; i++ {
		fwg.Add(1)
		obs.flushRes[i].started = true
		go func(i int) {
			defer fwg.Done()
			time.Sleep(time.Duration(c.FlushDelay[i]) * time.Microsecond)
			err := eng.Flush(bg)
			fmu.Lock()
			obs.flushRes[i].err, obs.flushRes[i].returned = err, true
			fmu.Unlock()
		}(i)
	}
	time.Sleep(time.Duration(c.StopDelay) * time.Microsecond)

	var sctx context.Context
	cancel := func() {}
	switch c.StopCtx {
	case "deadline":
		obs.deadline = time.Duration(c.DeadlineMs) * time.Millisecond
		sctx, cancel = context.WithTimeout(bg, obs.deadline)
	case "late":
		obs.deadline = time.Duration(c.DeadlineMs) * time.Millisecond
		obs.lateCtx = true
		sctx = newLateAfterFuncCtx(obs.deadline, time.Duration(c.LateMs)*time.Millisecond)
	case "cancelled":
		obs.deadline = time.Nanosecond
		cctx, cc := context.WithCancel(bg)
		cc()
		sctx = cctx
	default:
		sctx, cancel = context.WithTimeout(bg, 30*time.Second) // "none": a deadline far beyond anything the case needs
	}
	stopDone := make(chan struct{})
	t0 := time.Now()
	go func() {
		obs.stopErr = eng.Stop(sctx)
		obs.stopDur = time.Since(t0)
		obs.stopTick = tr.tick()
		obs.stopWall = time.Now()
		close(stopDone)
	}()
	select {
	case <-stopDone:
	case <-time.After(obs.deadline + 8*time.Second):
		ctl.ReleaseAll()
		cancel()
		select {
		case <-stopDone:
		case <-time.After(10 * time.Second):
		}
		return obs, &Violation{Msg: fmt.Sprintf("Stop with a %v deadline (%s ctx) had not returned 8s past it (wedge: gate=%s abandon=%v)", obs.deadline, c.StopCtx, jsonKey(c.Gate), c.Abandon), Key: ""}
	}
	cancel()
	// state at the moment Stop returned
	book.Collect()
	for _, b := range book.All() {
		if len(b.values()) > 0 {
			obs.answeredAtStop[b.N] = true
		}
	}
	// (1) new work is refused
	pb := book.NewBatch("good", "buf", 1, 1)
	obs.postIngest = eng.IngestRows(bg, pb.Rows, pb.Ch)
	fctx, fcancel := context.WithTimeout(bg, 2*time.Second)
	obs.postFlush = eng.Flush(fctx)
	fcancel()

	// open the wedge
	if c.Gate != nil && c.Gate.Release == "after-stop" {
		time.Sleep(time.Duration(c.ReleaseUs) * time.Microsecond)
		ctl.ReleaseAll()
	}
	settle := 400 * time.Millisecond
	if obs.lateCtx {
		settle += time.Duration(c.LateMs) * time.Millisecond
	}
	time.Sleep(settle)
	ctl.ReleaseAll()
	wgDone := make(chan struct{})
	go func() { wg.Wait(); close(wgDone) }()
	select {
	case <-wgDone:
	case <-time.After(6 * time.Second):
		return obs, violf("producers still blocked in IngestRows 6s after Stop returned and every gate was released")
	}
	fDone := make(chan struct{})
	go func() { fwg.Wait(); close(fDone) }()
	select {
	case <-fDone:
	case <-time.After(6 * time.Second):
		return obs, violf("a Flush call accepted before Stop had not returned 6s after Stop returned %v and every gate was released (silence)", obs.stopErr)
	}
	time.Sleep(150 * time.Millisecond)
	book.Collect()
	obs.calls = tr.Calls()
	obs.batches = book.All()
	for _, b := range obs.batches {
		b.mu.Lock()
		acc := b.Accepted
		b.mu.Unlock()
		if acc && b.ChanKind == "buf" && len(b.values()) == 0 {
			obs.unanswered = append(obs.unanswered, b.N)
		}
	}
	return obs, nil
}

func contextWithTimeoutIgnore(d time.Duration) context.Context {
	ctx, cancel := context.WithTimeout(context.Background(), d)
	_ = cancel
	return ctx
}

func judgeC08(c c08Case, o *c08Obs) (v *Violation, timing bool) {
	// (1)
	if !errors.Is(o.postIngest, bs.ErrEngineStopped) {
		return violf("IngestRows called after Stop returned gave %v, want ErrEngineStopped", o.postIngest), false
	}
	if !errors.Is(o.postFlush, bs.ErrEngineStopped) {
		return violf("Flush called after Stop returned gave %v, want ErrEngineStopped", o.postFlush), false
	}
	// (2)
	if o.stopErr == nil {
		for _, b := range o.batches {
			b.mu.Lock()
			acc, t1 := b.Accepted, b.CallT1
			b.mu.Unlock()
			if acc && b.ChanKind == "buf" && t1 < o.stopTick && !o.answeredAtStop[b.N] {
				return violf("Stop returned nil but accepted batch #%d had not been answered at that moment", b.N), false
			}
		}
		return nil, false
	}
	// (3) deadline
	if o.deadline > 0 && c.StopCtx != "none" {
		allow := 350 * time.Millisecond
		if o.stopDur > o.deadline+allow {
			return violf("Stop(%s ctx, deadline %v) returned after %v (allowance %v): wedge gate=%s abandon=%v ingest buffer %d", c.StopCtx, o.deadline, o.stopDur, allow, jsonKey(c.Gate), c.Abandon, c.Cfg.IngestBuf), true
		}
	}
	// (4) no further store work after Stop returned its deadline error
	created := map[string]CallRec{}
	for _, cr := range o.calls {
		if cr.Kind == "CreateFile" {
			if cr.T0 > o.stopTick {
				return violf("CreateFile started after Stop had returned %v (Stop ctx kind %q; the call began %v after Stop returned)", o.stopErr, c.StopCtx, time.Unix(0, cr.W0).Sub(o.stopWall)), true
			}
			created[cr.Ptr] = cr
		}
	}
	for _, cr := range o.calls {
		if cr.Kind == "Update" && cr.T0 > o.stopTick {
			for _, p := range cr.Ptrs {
				if cf, ok := created[p]; ok && cf.T0 > o.stopTick {
					return violf("MetaStore.Update for a file created after Stop returned", ), true
				}
			}
		}
	}
	// A Flush call made after the wedge had formed sits behind the wedged flush
	// in the single FIFO flush queue (or was refused): whatever handles it runs
	// after Stop's deadline abort, so it is told about the abort, not "durable".
	if o.wedgeFormed {
		for i, fr := range o.flushRes {
			if fr.started && fr.returned && fr.err == nil && c.StopDelay >= c.FlushDelay[i] {
				return violf("Flush call #%d, made while a flush was wedged (gate=%s abandon=%v) and before Stop, returned nil although Stop returned %v: a waiter queued behind the abort must get an error", i, jsonKey(c.Gate), c.Abandon, o.stopErr), false
			}
		}
	}
	// every waiter that can still receive gets a value (an error, not silence)
	if len(o.unanswered) > 0 {
		return violf("after Stop returned %v and every gate was released, accepted batches %v (buffered done channels) never received a value", o.stopErr, o.unanswered), true
	}
	return nil, false
}

func runC08(c c08Case) *Violation {
	Ev.Eval(1)
	o, v := runC08Once(c)
	if v == nil && o != nil {
		var timing bool
		v, timing = judgeC08(c, o)
		if v != nil && timing {
			// confirm-by-replay: a verdict that depends on timing is only reported
			// if three isolated re-executions of the same case fail too
			for i := 0; i < 3; i++ {
				o2, v2 := runC08Once(c)
				if v2 == nil && o2 != nil {
					v2, _ = judgeC08(c, o2)
				}
				if v2 == nil {
					Ev.Class("timing-verdict-not-reproduced(discarded)")
					return nil
				}
			}
		}
	}
	if v != nil {
		return v
	}
	if o == nil {
		return nil
	}
	Ev.Class("stopctx=" + c.StopCtx)
	if o.stopErr != nil {
		Ev.Class("stop-returned-deadline-error")
	}
	// non-trivial: deadline error while a flush was queued behind a wedged one
	queued := false
	if o.stopErr != nil && (c.Gate != nil || c.Abandon) {
		accepted := 0
		for _, b := range o.batches {
			if b.Accepted {
				accepted++
			}
		}
		queued = accepted >= 2
	}
	if queued {
		Ev.Class("deadline-with-flush-queued-behind-wedge")
		Ev.NonTrivial(jsonKey(c))
		if Ev.WantSample() {
			Ev.Sample(c)
		}
	}
	return nil
}

func TestC08(t *testing.T) {
	Ev.Rule = "case = engine with IngestBufferSize 1-8 and MaxBufferedRows 1-2 (every batch is its own flush); optional wedge (a gate at the 1st/2nd CreateFile/Write/Close/Update that honours or ignores ctx and opens right after Stop returns or only at the end; or an abandoned unbuffered done channel); 1-3 producers issuing up to 6 batches each (blocked on the full buffer when wedged); one Stop with a 50-300 ms deadline, an already-cancelled ctx, no practical deadline, or a custom Context whose AfterFunc callbacks run 600-900 ms late. Oracle on the recorded history: IngestRows/Flush called after Stop returned => ErrEngineStopped; Stop nil => every batch accepted before it returned was already answered; Stop returns within deadline + 350 ms; after a deadline error no CreateFile starts (logical clock of the tracing wrapper) and no Update for a file created afterwards; once the gates are open every accepted batch with a buffered channel has a value. when wedged: optionally several producer batches with abandoned unbuffered channels, a deep backlog shape (every pipeline stage full, producers parked on the ingest buffer) and a quiet-wedge shape (one wedged flush, nothing else queued), and 1-2 Flush callers arriving after the wedge formed and before Stop: such a Flush must return (no silence) and, after a deadline error, with an error. stoprace phase: 1-5 IngestRows/Flush callers held, through a Context whose Done() call parks, between the engine's stopped check and its enqueue; Stop is started and the callers are released before, 0-2 ms into, or after (30 ms) it; Stop nil => every accepted batch answered exactly once, every caller returns, later calls are refused. Time/ordering verdicts are confirmed by three isolated re-executions. Non-trivial: Stop returned a deadline error while >=2 batches were accepted behind a wedge; distinct by case."
	Ev.Assumptions = []string{"a flush already inside a ctx-ignoring store call when the deadline hits may finish (documented)", "deadline allowance 350 ms; timing verdicts need 3/3 reproductions"}
	runChecks(t, "schedules", 100, 3000, genC08(), runC08)
	runChecks(t, "stoprace", 60, 1500, genStopRace(), runStopRace)
}

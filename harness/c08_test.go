package harness

// C08 — Stop honours its contract: refuses new work, drains, obeys its deadline.
// Generated schedules around one Stop call: stores wedged at a generated call
// (ctx-honouring or ctx-ignoring; released right after Stop returns or only at
// the end), producers blocked on a small ingest buffer, an abandoned unbuffered
// done channel, and Stop contexts of several kinds (deadline, already
// cancelled, none, and a custom Context whose AfterFunc callbacks run late).

import (
	"context"
	"errors"
	"fmt"
	"sync"
	"testing"
	"time"

	bs "github.com/danthegoodman1/bloomsearch"
	"pgregory.net/rapid"
)

type c08Case struct {
	Cfg        EngCfg    `json:"cfg"`
	Gate       *GateSpec `json:"gate,omitempty"`
	Abandon    bool      `json:"abandon,omitempty"` // first batch carries an unbuffered done channel nobody receives from
	Producers  [][]int   `json:"producers"`         // per producer: pause (us) before each IngestRows
	StopCtx    string    `json:"stopctx"`           // deadline, late, cancelled, none
	DeadlineMs int       `json:"deadline_ms,omitempty"`
	LateMs     int       `json:"late_ms,omitempty"`
	StopDelay  int       `json:"stop_delay_us"`
	ReleaseUs  int       `json:"release_us"` // when the gate opens after Stop returned ("after-stop" gates)
	Procs      int       `json:"procs,omitempty"`
}

func genC08() *rapid.Generator[c08Case] {
	return rapid.Custom(func(t *rapid.T) c08Case {
		c := c08Case{}
		c.Cfg = EngCfg{Tokenizer: "default", Compression: "none", FPR: 0.01, RGRows: 10000, RGBytes: 10 << 20,
			BufRows: pick(t, "bufrows", []int{1, 2, 1000}), BufBytes: 1 << 20, BufTimeMs: 0,
			IngestBuf: pick(t, "ingestbuf", []int{1, 2, 8}), QueryConc: 4, Partition: "none", MaxFileSize: 10 << 30, MaxMerge: 10}
		wedge := unif(t, "wedge", 10)
		switch {
		case wedge < 6:
			c.Gate = &GateSpec{Kind: pick(t, "gatekind", []string{"CreateFile", "Write", "Close", "Update"}), N: unif(t, "gaten", 2),
				IgnoreCtx: rapid.Bool().Draw(t, "ignorectx"), Release: pick(t, "release", []string{"after-stop", "after-stop", "end"})}
		case wedge < 8:
			c.Abandon = true
		}
		np := rapid.IntRange(1, 3).Draw(t, "nproducers")
		for i := 0; i < np; i++ {
			k := rapid.IntRange(1, 6).Draw(t, "nbatches")
			var ps []int
			for j := 0; j < k; j++ {
				ps = append(ps, pick(t, "ppause", []int{0, 0, 200, 1000}))
			}
			c.Producers = append(c.Producers, ps)
		}
		wedged := c.Gate != nil || c.Abandon
		if wedged {
			c.StopCtx = pick(t, "stopctx", []string{"deadline", "deadline", "deadline", "late", "cancelled"})
		} else {
			c.StopCtx = pick(t, "stopctx2", []string{"none", "deadline", "cancelled", "late"})
		}
		c.DeadlineMs = pick(t, "deadline", []int{50, 100, 300})
		c.LateMs = pick(t, "late", []int{600, 900})
		c.StopDelay = pick(t, "stopdelay", []int{0, 500, 3000, 10000})
		c.ReleaseUs = pick(t, "releaseus", []int{0, 0, 2000, 20000})
		c.Procs = pick(t, "procs", []int{0, 2, 4})
		return c
	})
}

type c08Obs struct {
	stopErr      error
	stopDur      time.Duration
	stopTick     int64
	stopWall     time.Time
	deadline     time.Duration
	lateCtx      bool
	postIngest   error
	postFlush    error
	calls        []CallRec
	batches      []*WBatch
	abandoned    *WBatch
	queuedBehind bool
	unanswered   []int
	answeredAtStop map[int]bool
}

func runC08Once(c c08Case) (*c08Obs, *Violation) {
	if c.Procs > 0 {
		prev := setProcs(c.Procs)
		defer setProcs(prev)
	}
	ds := NewMemDataStore(false)
	ms := bs.NewMemoryMetaStore()
	tr := NewTrace(ds, ms)
	script := StoreScript{}
	if c.Gate != nil {
		script.Gates = []GateSpec{*c.Gate}
	}
	ctl := NewStoreCtl(script)
	tr.Before = ctl.Hook
	eng, err := bs.NewBloomSearchEngine(c.Cfg.Build(), tr, tr)
	if err != nil {
		return nil, violf("config rejected: %v", err)
	}
	eng.Start()
	book := NewAckBook(tr.tick)
	defer book.StopReceivers()
	defer ctl.ReleaseAll()
	bg := context.Background()
	obs := &c08Obs{answeredAtStop: map[int]bool{}}

	if c.Abandon {
		b := book.NewBatch("good", "nil", 1, 1)
		b.Ch = make(chan error) // unbuffered, nobody ever receives
		b.ChanKind = "abandoned"
		if err := eng.IngestRows(bg, b.Rows, b.Ch); err != nil {
			return nil, violf("IngestRows: %v", err)
		}
		b.Accepted = true
		obs.abandoned = b
		// push it into a flush whose done-channel delivery stalls; Flush itself
		// waits behind that delivery, so it runs on its own goroutine
		go eng.Flush(bg)
		time.Sleep(2 * time.Millisecond)
	}

	var wg sync.WaitGroup
	for pi, pauses := range c.Producers {
		wg.Add(1)
		go func(pi int, pauses []int) {
			defer wg.Done()
			for _, p := range pauses {
				time.Sleep(time.Duration(p) * time.Microsecond)
				b := book.NewBatch("good", "buf", 1, 1)
				ctx, cancel := context.WithTimeout(bg, 3*time.Second)
				b.CallT0 = tr.tick()
				err := eng.IngestRows(ctx, b.Rows, b.Ch)
				cancel()
				b.mu.Lock()
				b.CallT1, b.CallErr, b.Accepted = tr.tick(), err, err == nil
				b.mu.Unlock()
				if errors.Is(err, bs.ErrEngineStopped) {
					return
				}
			}
		}(pi, pauses)
	}
	// let the wedge form, then Stop
	if c.Gate != nil {
		select {
		case <-ctl.Entered[0]:
		case <-time.After(300 * time.Millisecond):
		}
	}
	time.Sleep(time.Duration(c.StopDelay) * time.Microsecond)

	var sctx context.Context
	cancel := func() {}
	switch c.StopCtx {
	case "deadline":
		obs.deadline = time.Duration(c.DeadlineMs) * time.Millisecond
		sctx, cancel = context.WithTimeout(bg, obs.deadline)
	case "late":
		obs.deadline = time.Duration(c.DeadlineMs) * time.Millisecond
		obs.lateCtx = true
		sctx = newLateAfterFuncCtx(obs.deadline, time.Duration(c.LateMs)*time.Millisecond)
	case "cancelled":
		obs.deadline = time.Nanosecond
		cctx, cc := context.WithCancel(bg)
		cc()
		sctx = cctx
	default:
		sctx, cancel = context.WithTimeout(bg, 30*time.Second) // "none": a deadline far beyond anything the case needs
	}
	stopDone := make(chan struct{})
	t0 := time.Now()
	go func() {
		obs.stopErr = eng.Stop(sctx)
		obs.stopDur = time.Since(t0)
		obs.stopTick = tr.tick()
		obs.stopWall = time.Now()
		close(stopDone)
	}()
	select {
	case <-stopDone:
	case <-time.After(obs.deadline + 8*time.Second):
		ctl.ReleaseAll()
		cancel()
		select {
		case <-stopDone:
		case <-time.After(10 * time.Second):
		}
		return obs, &Violation{Msg: fmt.Sprintf("Stop with a %v deadline (%s ctx) had not returned 8s past it (wedge: gate=%s abandon=%v)", obs.deadline, c.StopCtx, jsonKey(c.Gate), c.Abandon), Key: ""}
	}
	cancel()
	// state at the moment Stop returned
	book.Collect()
	for _, b := range book.All() {
		if len(b.values()) > 0 {
			obs.answeredAtStop[b.N] = true
		}
	}
	// (1) new work is refused
	pb := book.NewBatch("good", "buf", 1, 1)
	obs.postIngest = eng.IngestRows(bg, pb.Rows, pb.Ch)
	fctx, fcancel := context.WithTimeout(bg, 2*time.Second)
	obs.postFlush = eng.Flush(fctx)
	fcancel()

	// open the wedge
	if c.Gate != nil && c.Gate.Release == "after-stop" {
		time.Sleep(time.Duration(c.ReleaseUs) * time.Microsecond)
		ctl.ReleaseAll()
	}
	settle := 400 * time.Millisecond
	if obs.lateCtx {
		settle += time.Duration(c.LateMs) * time.Millisecond
	}
	time.Sleep(settle)
	ctl.ReleaseAll()
	wgDone := make(chan struct{})
	go func() { wg.Wait(); close(wgDone) }()
	select {
	case <-wgDone:
	case <-time.After(6 * time.Second):
		return obs, violf("producers still blocked in IngestRows 6s after Stop returned and every gate was released")
	}
	time.Sleep(150 * time.Millisecond)
	book.Collect()
	obs.calls = tr.Calls()
	obs.batches = book.All()
	for _, b := range obs.batches {
		b.mu.Lock()
		acc := b.Accepted
		b.mu.Unlock()
		if acc && b.ChanKind == "buf" && len(b.values()) == 0 {
			obs.unanswered = append(obs.unanswered, b.N)
		}
	}
	return obs, nil
}

func contextWithTimeoutIgnore(d time.Duration) context.Context {
	ctx, cancel := context.WithTimeout(context.Background(), d)
	_ = cancel
	return ctx
}

func judgeC08(c c08Case, o *c08Obs) (v *Violation, timing bool) {
	// (1)
	if !errors.Is(o.postIngest, bs.ErrEngineStopped) {
		return violf("IngestRows called after Stop returned gave %v, want ErrEngineStopped", o.postIngest), false
	}
	if !errors.Is(o.postFlush, bs.ErrEngineStopped) {
		return violf("Flush called after Stop returned gave %v, want ErrEngineStopped", o.postFlush), false
	}
	// (2)
	if o.stopErr == nil {
		for _, b := range o.batches {
			b.mu.Lock()
			acc, t1 := b.Accepted, b.CallT1
			b.mu.Unlock()
			if acc && b.ChanKind == "buf" && t1 < o.stopTick && !o.answeredAtStop[b.N] {
				return violf("Stop returned nil but accepted batch #%d had not been answered at that moment", b.N), false
			}
		}
		return nil, false
	}
	// (3) deadline
	if o.deadline > 0 && c.StopCtx != "none" {
		allow := 350 * time.Millisecond
		if o.stopDur > o.deadline+allow {
			return violf("Stop(%s ctx, deadline %v) returned after %v (allowance %v): wedge gate=%s abandon=%v ingest buffer %d", c.StopCtx, o.deadline, o.stopDur, allow, jsonKey(c.Gate), c.Abandon, c.Cfg.IngestBuf), true
		}
	}
	// (4) no further store work after Stop returned its deadline error
	created := map[string]CallRec{}
	for _, cr := range o.calls {
		if cr.Kind == "CreateFile" {
			if cr.T0 > o.stopTick {
				return violf("CreateFile started after Stop had returned %v (Stop ctx kind %q; the call began %v after Stop returned)", o.stopErr, c.StopCtx, time.Unix(0, cr.W0).Sub(o.stopWall)), true
			}
			created[cr.Ptr] = cr
		}
	}
	for _, cr := range o.calls {
		if cr.Kind == "Update" && cr.T0 > o.stopTick {
			for _, p := range cr.Ptrs {
				if cf, ok := created[p]; ok && cf.T0 > o.stopTick {
					return violf("MetaStore.Update for a file created after Stop returned", ), true
				}
			}
		}
	}
	// every waiter that can still receive gets a value (an error, not silence)
	if len(o.unanswered) > 0 {
		return violf("after Stop returned %v and every gate was released, accepted batches %v (buffered done channels) never received a value", o.stopErr, o.unanswered), true
	}
	return nil, false
}

func runC08(c c08Case) *Violation {
	Ev.Eval(1)
	o, v := runC08Once(c)
	if v == nil && o != nil {
		var timing bool
		v, timing = judgeC08(c, o)
		if v != nil && timing {
			// confirm-by-replay: a verdict that depends on timing is only reported
			// if three isolated re-executions of the same case fail too
			for i := 0; i < 3; i++ {
				o2, v2 := runC08Once(c)
				if v2 == nil && o2 != nil {
					v2, _ = judgeC08(c, o2)
				}
				if v2 == nil {
					Ev.Class("timing-verdict-not-reproduced(discarded)")
					return nil
				}
			}
		}
	}
	if v != nil {
		return v
	}
	if o == nil {
		return nil
	}
	Ev.Class("stopctx=" + c.StopCtx)
	if o.stopErr != nil {
		Ev.Class("stop-returned-deadline-error")
	}
	// non-trivial: deadline error while a flush was queued behind a wedged one
	queued := false
	if o.stopErr != nil && (c.Gate != nil || c.Abandon) {
		accepted := 0
		for _, b := range o.batches {
			if b.Accepted {
				accepted++
			}
		}
		queued = accepted >= 2
	}
	if queued {
		Ev.Class("deadline-with-flush-queued-behind-wedge")
		Ev.NonTrivial(jsonKey(c))
		if Ev.WantSample() {
			Ev.Sample(c)
		}
	}
	return nil
}

func TestC08(t *testing.T) {
	Ev.Rule = "case = engine with IngestBufferSize 1-8 and MaxBufferedRows 1-2 (every batch is its own flush); optional wedge (a gate at the 1st/2nd CreateFile/Write/Close/Update that honours or ignores ctx and opens right after Stop returns or only at the end; or an abandoned unbuffered done channel); 1-3 producers issuing up to 6 batches each (blocked on the full buffer when wedged); one Stop with a 50-300 ms deadline, an already-cancelled ctx, no practical deadline, or a custom Context whose AfterFunc callbacks run 600-900 ms late. Oracle on the recorded history: IngestRows/Flush called after Stop returned => ErrEngineStopped; Stop nil => every batch accepted before it returned was already answered; Stop returns within deadline + 350 ms; after a deadline error no CreateFile starts (logical clock of the tracing wrapper) and no Update for a file created afterwards; once the gates are open every accepted batch with a buffered channel has a value. stoprace phase: 1-5 IngestRows/Flush callers held, through a Context whose Done() call parks, between the engine's stopped check and its enqueue; Stop is started and the callers are released before, 0-2 ms into, or after (30 ms) it; Stop nil => every accepted batch answered exactly once, every caller returns, later calls are refused. Time/ordering verdicts are confirmed by three isolated re-executions. Non-trivial: Stop returned a deadline error while >=2 batches were accepted behind a wedge; distinct by case."
	Ev.Assumptions = []string{"a flush already inside a ctx-ignoring store call when the deadline hits may finish (documented)", "deadline allowance 350 ms; timing verdicts need 3/3 reproductions"}
	runChecks(t, "schedules", 100, 3000, genC08(), runC08)
	runChecks(t, "stoprace", 60, 1500, genStopRace(), runStopRace)
}

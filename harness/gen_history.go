package harness

// History and query generators for the search-path properties
// (C01, C02, C17, C18, C23, C24, C11, C12).

import (
	"encoding/json"
	"regexp"
	"strings"
	"unicode"

	bs "github.com/danthegoodman1/bloomsearch"
	"pgregory.net/rapid"
)

var numFieldPool = []string{"n", "ts"}

type HistOpts struct {
	MaxSteps   int
	MaxRows    int // per batch
	Merge      bool
	Restart    bool
	Ext        bool
	FS         bool // allow filesystem stores
	LowFPR     bool
	BigFilters bool // allow multi-MB filter padding in ext files
	// MergeHeavy shapes the history so that Merge really combines blocks:
	// few partitions, roomy row-group limits, many small flushed files, and
	// one or more merges at the end.
	MergeHeavy bool
	// GroupedParts: partition by the "p" field and give every batch a single
	// partition value, so files hold disjoint partitions and one Merge forms
	// several merge groups.
	GroupedParts bool
	// MinMaxHeavy: every numeric pool field is a minmax key, rows always carry
	// numbers there (small values so block ranges nest and overlap, plus the
	// extreme classes), 3-8 small single-flush files over one or two
	// partitions, then Merge: merged blocks whose range must be the hull of
	// three or more source ranges. Queries are (mostly) prefilter-only.
	MinMaxHeavy bool
	// Faults: add 1-3 one-shot store failures (CreateFile/Write/Close/Update at
	// generated ordinals) to the history: failed flushes and merges between
	// successful ones
	Faults bool
}

func drawMinMaxHistory(t *rapid.T, o HistOpts) History {
	spec := RowSpec{PartField: partFieldName, NumFields: nil}
	h := History{Cfg: drawCfg(t, "default", numFieldPool, true), Meta: "mem", Data: "mem"}
	h.Cfg.MinMax = append([]string(nil), numFieldPool...)
	if chance(t, "onekey", 20) {
		h.Cfg.MinMax = []string{pick(t, "thekey", numFieldPool)}
	}
	h.Cfg.Partition = pick(t, "mmpart", []string{"none", "const", "field", "field"})
	h.Cfg.RGRows, h.Cfg.RGBytes = 10000, 10<<20
	h.Cfg.BufRows, h.Cfg.BufBytes, h.Cfg.BufTimeMs = 1000, 1<<20, 0
	h.Cfg.MaxFileSize = 10 << 30
	h.Cfg.MaxMerge = pick(t, "mmmaxmerge", []int{10, 10, 4})
	parts := []string{"p1", "p2"}
	nfl := rapid.IntRange(3, 8).Draw(t, "nflushes")
	for i := 0; i < nfl; i++ {
		n := rapid.IntRange(1, 3).Draw(t, "nrows")
		rows := make([]Val, 0, n)
		for j := 0; j < n; j++ {
			r := drawRow(t, spec)
			ms := r.O
			ms = setMember(ms, partFieldName, VStr(pick(t, "part", parts)))
			for _, nf := range numFieldPool {
				switch unif(t, "numf_"+nf, 12) {
				case 0:
					ms = delMember(ms, nf)
				case 1, 2, 3:
					ms = setMember(ms, nf, genMarshalableNum().Draw(t, "numv"))
				case 4:
					ms = setMember(ms, nf, VF64(float64(rapid.IntRange(-400, 600).Draw(t, "fnum")) / 4))
				default:
					ms = setMember(ms, nf, VInt(int64(rapid.IntRange(-50, 150).Draw(t, "small"))))
				}
			}
			rows = append(rows, Val{K: "obj", O: ms})
		}
		h.Steps = append(h.Steps, Step{Op: "ingest", Rows: rows}, Step{Op: "flush"})
		if i >= 2 && chance(t, "midmerge", 15) {
			h.Steps = append(h.Steps, Step{Op: "merge"})
		}
	}
	h.Steps = append(h.Steps, Step{Op: "merge"})
	if chance(t, "secondmerge", 40) {
		h.Steps = append(h.Steps, Step{Op: "merge"})
	}
	return h
}

// mergeFriendly rewrites a drawn configuration so blocks of different files
// are mergeable (same partition, limits that leave room).
func mergeFriendly(t *rapid.T, c EngCfg) EngCfg {
	c.Partition = pick(t, "mpart", []string{"none", "const", "idmod3", "field"})
	c.RGRows = pick(t, "mrgrows", []int{10000, 6, 12, 30})
	c.RGBytes = pick(t, "mrgbytes", []int{10 << 20, 4000, 1500})
	c.BufRows = pick(t, "mbufrows", []int{1000, 2, 3, 5})
	c.BufBytes = 1 << 20
	c.MaxFileSize = pick(t, "mmaxfile", []int{10 << 30, 10 << 30, 6000, 20000})
	c.MaxMerge = pick(t, "mmaxmerge", []int{10, 3, 4, 2})
	return c
}

func drawHistory(t *rapid.T, o HistOpts) History {
	if o.Faults {
		o2 := o
		o2.Faults = false
		o2.Ext = false
		h := drawHistory(t, o2)
		for i := rapid.IntRange(1, 3).Draw(t, "nhistfaults"); i > 0; i-- {
			h.Faults = append(h.Faults, HistFault{Kind: pick(t, "hfkind", []string{"Write", "Write", "Close", "CreateFile", "Update", "OpenFile", "OpenFile", "Read"}), N: rapid.IntRange(0, 14).Draw(t, "hfn")})
		}
		return h
	}
	if o.MinMaxHeavy {
		return drawMinMaxHistory(t, o)
	}
	tokenizer := rapid.SampledFrom(tokenizerNames).Draw(t, "tokenizer")
	lowFPR := o.LowFPR || rapid.Bool().Draw(t, "lowfpr")
	spec := RowSpec{PartField: partFieldName, NumFields: numFieldPool, TopEmpty: chance(t, "topempty", 5)}
	h := History{Cfg: drawCfg(t, tokenizer, numFieldPool, lowFPR), Meta: "mem", Data: "mem"}
	if o.FS {
		switch unif(t, "stores", 6) {
		case 0:
			h.Meta, h.Data = "fs", "fs"
		case 1:
			h.Meta, h.Data = "mem", "fs"
		case 2:
			h.Data = "mem-noabort"
		}
	}
	if o.MergeHeavy {
		h.Cfg = mergeFriendly(t, h.Cfg)
		if o.GroupedParts {
			h.Cfg.Partition = "field"
			h.Cfg.BufRows = 1000
		}
	}
	cfg := h.Cfg
	nsteps := rapid.IntRange(1, o.MaxSteps).Draw(t, "nsteps")
	if o.MergeHeavy {
		nsteps = rapid.IntRange(4, o.MaxSteps).Draw(t, "mnsteps")
	}
	for i := 0; i < nsteps; i++ {
		k := unif(t, "step", 20)
		if i == 0 {
			k = 0 // a history starts by storing something
		}
		if o.MergeHeavy {
			// ingest, flush, ingest, flush, ..., with the occasional restart / merge
			switch {
			case i%2 == 0:
				k = 0
			case k < 14:
				k = 11 // flush
			}
		}
		switch {
		case k < 11:
			n := rapid.IntRange(1, o.MaxRows).Draw(t, "nrows")
			rows := make([]Val, 0, n)
			for j := 0; j < n; j++ {
				if j > 0 && chance(t, "duprow", 10) {
					rows = append(rows, rows[rapid.IntRange(0, j-1).Draw(t, "dupof")]) // identical except id
					continue
				}
				rows = append(rows, drawRow(t, spec))
			}
			if o.MergeHeavy && chance(t, "compressible", 50) {
				// rows that really compress, so compressed and uncompressed sizes differ
				for j := range rows {
					pad := VStr(strings.Repeat(pick(t, "padch", []string{"ab ", "x", "error "}), pick(t, "padn", []int{60, 150, 400})))
					rows[j] = Val{K: "obj", O: setMember(append([]KV(nil), rows[j].O...), "pad", pad)}
				}
			}
			if o.GroupedParts {
				part := VStr(pick(t, "batchpart", []string{"p1", "p2", "p3", "z"}))
				for j := range rows {
					rows[j] = Val{K: "obj", O: setMember(append([]KV(nil), rows[j].O...), partFieldName, part)}
				}
			}
			h.Steps = append(h.Steps, Step{Op: "ingest", Rows: rows})
		case k < 14:
			h.Steps = append(h.Steps, Step{Op: "flush"})
		case k < 16 && o.Restart:
			c := drawCfg(t, tokenizer, numFieldPool, lowFPR)
			if o.MergeHeavy {
				c = mergeFriendly(t, c)
				if chance(t, "samekeys", 60) {
					c.MinMax = append([]string(nil), h.Cfg.MinMax...)
					c.Partition = h.Cfg.Partition
				}
				if o.GroupedParts {
					c.Partition = "field"
					c.BufRows = 1000
				}
			}
			cfg = c
			h.Steps = append(h.Steps, Step{Op: "restart", Cfg: &c})
		case k < 18 && o.Merge:
			h.Steps = append(h.Steps, Step{Op: "merge"})
		case k < 20 && o.Ext:
			n := rapid.IntRange(1, o.MaxRows).Draw(t, "extrows")
			rows := make([]Val, 0, n)
			for j := 0; j < n; j++ {
				rows = append(rows, drawRow(t, spec))
			}
			opt := ExtOpt{
				Blocks:         rapid.IntRange(1, 4).Draw(t, "extblocks"),
				NoBlockFilters: chance(t, "nobf", 15),
				AbsentFilter:   0,
				NoFileFilters:  chance(t, "noff", 15),
				NoHash:         chance(t, "nohash", 25),
				EmptyComp:      chance(t, "emptycomp", 25),
				Part:           rapid.SampledFrom(partPool).Draw(t, "extpart"),
				WithMinMax:     rapid.Bool().Draw(t, "extmm"),
				ShuffleRegion:  chance(t, "shuffle", 20),
			}
			if chance(t, "absent", 30) {
				opt.AbsentFilter = rapid.IntRange(1, 3).Draw(t, "absentwhich")
			}
			opt.Comp = pick(t, "extcomp", []string{"", "", "snappy", "zstd"})
			if chance(t, "nosecmask", 30) {
				// some blocks without a filter section next to blocks that have one
				opt.NoSectionMask = rapid.IntRange(1, 14).Draw(t, "nosecmaskv")
			}
			if o.BigFilters && chance(t, "bigfilters", 50) {
				// ~1.2-2.4 MB per filter at 1e-6..1e-9: several blocks exceed one 4 MiB chunk
				opt.FilterPad = rapid.SampledFrom([]int{400000, 700000, 1500000}).Draw(t, "pad")
			}
			h.Steps = append(h.Steps, Step{Op: "ext", Rows: rows, Ext: &opt})
		default:
			h.Steps = append(h.Steps, Step{Op: "flush"})
		}
	}
	_ = cfg
	if o.MergeHeavy {
		h.Steps = append(h.Steps, Step{Op: "merge"})
		if chance(t, "secondmerge", 40) {
			h.Steps = append(h.Steps, Step{Op: "merge"})
		}
	}
	return h
}

// simulateRows replays id assignment and emission computation for a history
// without running an engine (used by generators to build query pools).
type simRow struct {
	ID   int
	JSON []byte
	Sem  *RowSem
	Val  Val
}

func simulateRows(h History) []simRow {
	tok := tokenizers[h.Cfg.Tokenizer].Oracle
	next := 1
	var out []simRow
	for _, st := range h.Steps {
		if st.Op != "ingest" && st.Op != "ext" {
			continue
		}
		for _, r := range st.Rows {
			id := next
			next++
			rv := withID(r, id)
			jb, err := json.Marshal(rowGo(rv))
			if err != nil {
				continue
			}
			em, err := emissionsOf(jb)
			if err != nil {
				continue
			}
			out = append(out, simRow{ID: id, JSON: jb, Sem: rowSem(em, tok), Val: rv})
		}
	}
	return out
}

// QueryPools are the entry pools query leaves are drawn from.
type QueryPools struct {
	Paths   []string
	Tokens  []string
	FT      [][2]string
	Texts   []Leaf
	Nums    []int64
	NumKeys []string
	Parts   []string
	// Target, when set, holds the entries of ONE stored row: hit leaves are
	// drawn from it most of the time so that AND trees have a row satisfying
	// all their leaves.
	Target *QueryPools
}

// hit returns the pools hit-leaves are drawn from.
func (p QueryPools) hit(t *rapid.T) QueryPools {
	if p.Target != nil && !chance(t, "globalhit", 20) {
		return *p.Target
	}
	return p
}

func buildPools(rows []simRow) QueryPools {
	var p QueryPools
	seenP, seenT, seenFT := map[string]bool{}, map[string]bool{}, map[[2]string]bool{}
	var numVals []Val
	for _, r := range rows {
		for _, path := range sortedKeys(r.Sem.E.Paths) {
			if !seenP[path] && len(p.Paths) < 200 {
				seenP[path] = true
				p.Paths = append(p.Paths, path)
			}
		}
		for _, tk := range sortedKeys(r.Sem.Tokens) {
			if !seenT[tk] && len(p.Tokens) < 200 {
				seenT[tk] = true
				p.Tokens = append(p.Tokens, tk)
			}
		}
		for _, l := range r.Sem.E.Leaves {
			if l.HasText && len(p.Texts) < 200 {
				p.Texts = append(p.Texts, l)
			}
		}
		fts := make([][2]string, 0, len(r.Sem.FT))
		for ft := range r.Sem.FT {
			fts = append(fts, ft)
		}
		sortPairs(fts)
		for _, ft := range fts {
			if !seenFT[ft] && len(p.FT) < 300 {
				seenFT[ft] = true
				p.FT = append(p.FT, ft)
			}
		}
		for _, nf := range numFieldPool {
			if v, ok := getMember(r.Val, nf); ok && isNumericKind(v.K) {
				numVals = append(numVals, v)
			}
		}
	}
	p.Nums = operandsNear(numVals)
	p.NumKeys = append(append([]string{}, numFieldPool...), "id", "absentkey")
	p.Parts = append(append([]string{}, partPool...), "all", "m0", "m1", "m2")
	if len(p.Paths) == 0 {
		p.Paths = []string{"id"}
	}
	if len(p.Tokens) == 0 {
		p.Tokens = []string{"1"}
	}
	if len(p.FT) == 0 {
		p.FT = [][2]string{{"id", "1"}}
	}
	if len(p.Texts) == 0 {
		p.Texts = []Leaf{{Path: "id", Text: "1", HasText: true}}
	}
	return p
}

func sortPairs(ps [][2]string) {
	for i := 1; i < len(ps); i++ {
		for j := i; j > 0 && (ps[j][0] < ps[j-1][0] || (ps[j][0] == ps[j-1][0] && ps[j][1] < ps[j-1][1])); j-- {
			ps[j], ps[j-1] = ps[j-1], ps[j]
		}
	}
}

// nearMiss perturbs an entry: case change, parent / child path, prefix,
// joined-key ("::") splits.
func nearMiss(t *rapid.T, s string) string {
	switch unif(t, "nearmiss", 8) {
	case 0:
		return strings.ToUpper(s)
	case 1:
		return strings.ToLower(s)
	case 2:
		if i := strings.LastIndex(s, "."); i > 0 {
			return s[:i] // parent path
		}
		return s + ".x"
	case 3:
		return s + "." + rapid.SampledFrom(keyPool).Draw(t, "childkey")
	case 4:
		if len(s) > 1 {
			return s[:len(s)-1]
		}
		return s + "x"
	case 5:
		return s + ":"
	case 6:
		r := []rune(s)
		if len(r) > 0 {
			r[0] = unicode.SimpleFold(r[0])
		}
		return string(r)
	default:
		return " " + s
	}
}

func drawBloomLeaf(t *rapid.T, p QueryPools) bs.BloomExpression {
	mode := unif(t, "leafmode", 40) // 0-27 hit, 28-33 near miss, 34-36 absent, 37-39 degenerate
	kind := unif(t, "leafkind", 3)
	switch {
	case mode < 28:
		hp := p.hit(t)
		switch kind {
		case 0:
			return bs.Field(pick(t, "path", hp.Paths))
		case 1:
			return bs.Token(pick(t, "token", hp.Tokens))
		default:
			ft := pick(t, "ft", hp.FT)
			return bs.FieldToken(ft[0], ft[1])
		}
	case mode < 34:
		switch kind {
		case 0:
			return bs.Field(nearMiss(t, rapid.SampledFrom(p.Paths).Draw(t, "path")))
		case 1:
			return bs.Token(nearMiss(t, rapid.SampledFrom(p.Tokens).Draw(t, "token")))
		default:
			ft := rapid.SampledFrom(p.FT).Draw(t, "ft")
			switch unif(t, "ftmiss", 5) {
			case 0:
				return bs.FieldToken(nearMiss(t, ft[0]), ft[1])
			case 1:
				return bs.FieldToken(ft[0], nearMiss(t, ft[1]))
			case 2:
				// joined-key collision: move the "::" boundary
				joined := ft[0] + "::" + ft[1]
				if i := strings.Index(joined, "::"); i >= 0 {
					if j := strings.Index(joined[i+2:], "::"); j >= 0 {
						return bs.FieldToken(joined[:i+2+j], joined[i+2+j+2:])
					}
				}
				return bs.FieldToken(ft[0]+"::", ft[1])
			case 3:
				// token from another field at this path
				other := rapid.SampledFrom(p.FT).Draw(t, "ft2")
				return bs.FieldToken(ft[0], other[1])
			default:
				if i := strings.LastIndex(ft[0], "."); i > 0 {
					return bs.FieldToken(ft[0][:i], ft[1]) // parent path is not an exact-path match
				}
				return bs.FieldToken(ft[0]+".x", ft[1])
			}
		}
	case mode < 37:
		switch kind {
		case 0:
			return bs.Field(rapid.SampledFrom([]string{"absent", "", ".", "id.x", "nope.nope"}).Draw(t, "abspath"))
		case 1:
			return bs.Token(rapid.SampledFrom([]string{"absenttoken", "", " ", "zzz"}).Draw(t, "abstoken"))
		default:
			return bs.FieldToken(rapid.SampledFrom([]string{"", "absent", "id"}).Draw(t, "absf"), rapid.SampledFrom([]string{"", "zzz", "1"}).Draw(t, "abst"))
		}
	default:
		switch unif(t, "degen", 4) {
		case 0:
			return bs.BloomExpression{ExpressionType: bs.BloomExpressionCondition} // nil condition = true
		case 1:
			return bs.BloomExpression{ExpressionType: "XOR"} // unknown expression type = false
		case 2:
			return bs.BloomExpression{ExpressionType: bs.BloomExpressionCondition, Condition: &bs.BloomCondition{Type: "PREFIX", Field: "id"}} // unknown condition type = false
		default:
			if rapid.Bool().Draw(t, "emptyand") {
				return bs.And()
			}
			return bs.Or()
		}
	}
}

func drawBloomTree(t *rapid.T, p QueryPools, depth int) bs.BloomExpression {
	k := unif(t, "bnode", 10)
	if depth <= 0 || k < 5 {
		return drawBloomLeaf(t, p)
	}
	n := rapid.IntRange(1, 3).Draw(t, "nchildren")
	ch := make([]bs.BloomExpression, n)
	for i := range ch {
		ch[i] = drawBloomTree(t, p, depth-1)
	}
	raw := chance(t, "rawnode", 15) // build the node without the flattening constructor
	if k < 8 {
		if raw {
			return bs.BloomExpression{ExpressionType: bs.BloomExpressionAnd, Children: ch}
		}
		return bs.And(ch...)
	}
	if raw {
		return bs.BloomExpression{ExpressionType: bs.BloomExpressionOr, Children: ch}
	}
	return bs.Or(ch...)
}

func drawPattern(t *rapid.T, p QueryPools, text string) string {
	switch unif(t, "pattern", 12) {
	case 0, 1:
		return regexp.QuoteMeta(text)
	case 2:
		return "^" + regexp.QuoteMeta(text) + "$"
	case 3:
		return "(?i)" + regexp.QuoteMeta(strings.ToLower(text))
	case 4:
		return ".*"
	case 5:
		return ""
	case 6:
		return "^[0-9.eE+-]+$"
	case 7:
		f := strings.Fields(text)
		if len(f) > 0 {
			return regexp.QuoteMeta(f[0])
		}
		return "^$"
	case 8:
		return "^(true|false)$"
	case 9:
		return `\s`
	case 10:
		if chance(t, "invalidre", 30) {
			return "(" // invalid: Query must reject
		}
		return "zzz+"
	default:
		return "^" + regexp.QuoteMeta(text)
	}
}

func drawRegexLeaf(t *rapid.T, p QueryPools) bs.RegexExpression {
	leaf := pick(t, "leaf", p.hit(t).Texts)
	mode := unif(t, "rleafmode", 40)
	switch {
	case mode < 28:
		field := leaf.Path
		if chance(t, "ancestor", 40) {
			if i := strings.Index(field, "."); i > 0 {
				field = field[:i]
			}
		}
		return bs.FieldRegex(field, drawPattern(t, p, leaf.Text))
	case mode < 33:
		return bs.FieldRegex(nearMiss(t, leaf.Path), drawPattern(t, p, leaf.Text))
	case mode < 35:
		return bs.FieldRegex(rapid.SampledFrom([]string{"", "absent", "."}).Draw(t, "absfield"), ".*")
	case mode < 37:
		return bs.FieldRegex(rapid.SampledFrom(p.Paths).Draw(t, "anypath"), drawPattern(t, p, leaf.Text))
	default:
		switch unif(t, "rdegen", 4) {
		case 0:
			return bs.RegexExpression{ExpressionType: bs.RegexExpressionCondition} // nil condition = true
		case 1:
			return bs.RegexExpression{ExpressionType: "XOR"} // unknown: Query rejects
		case 2:
			return bs.RegexAnd()
		default:
			return bs.RegexOr()
		}
	}
}

func drawRegexTree(t *rapid.T, p QueryPools, depth int) bs.RegexExpression {
	k := unif(t, "rnode", 10)
	if depth <= 0 || k < 6 {
		return drawRegexLeaf(t, p)
	}
	n := rapid.IntRange(1, 3).Draw(t, "nchildren")
	ch := make([]bs.RegexExpression, n)
	for i := range ch {
		ch[i] = drawRegexTree(t, p, depth-1)
	}
	raw := chance(t, "rawnode", 15)
	if k < 8 {
		if raw {
			return bs.RegexExpression{ExpressionType: bs.RegexExpressionAnd, Children: ch}
		}
		return bs.RegexAnd(ch...)
	}
	if raw {
		return bs.RegexExpression{ExpressionType: bs.RegexExpressionOr, Children: ch}
	}
	return bs.RegexOr(ch...)
}

// QuerySpec is one generated query (nil Query pointer allowed).
type QuerySpec struct {
	Nil bool      `json:"nil,omitempty"`
	Q   *bs.Query `json:"q,omitempty"`
}

func (qs QuerySpec) Query() *bs.Query {
	if qs.Nil {
		return nil
	}
	return qs.Q
}

func drawQuery(t *rapid.T, p QueryPools, withPrefilter bool) QuerySpec {
	if chance(t, "nilquery", 2) {
		return QuerySpec{Nil: true}
	}
	q := &bs.Query{}
	switch unif(t, "bloompart", 10) {
	case 0:
		// nil Bloom
	case 1:
		q.Bloom = &bs.BloomQuery{} // nil expression
	default:
		e := drawBloomTree(t, p, 3)
		q.Bloom = &bs.BloomQuery{Expression: &e}
	}
	switch unif(t, "regexpart", 10) {
	case 0, 1, 2, 3, 4, 6:
		// nil Regex
	case 5:
		q.Regex = &bs.RegexQuery{}
	default:
		e := drawRegexTree(t, p, 2)
		q.Regex = &bs.RegexQuery{Expression: &e}
	}
	if withPrefilter {
		switch unif(t, "prefpart", 10) {
		case 0, 1, 2, 3:
			// nil prefilter
		case 4:
			q.Prefilter = &bs.QueryPrefilter{}
		default:
			e := drawPrefilterTree(t, p.NumKeys, p.Nums, p.Parts, 2)
			q.Prefilter = &bs.QueryPrefilter{Expression: &e}
		}
	}
	return QuerySpec{Q: q}
}

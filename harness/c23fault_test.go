package harness

import "testing"

// c23FaultPhase: statistics under failures and early termination; implemented
// with the cursor scripts of c20_test.go.
func c23FaultPhase(t *testing.T) { c23FaultPhaseImpl(t) }

package harness

import "pgregory.net/rapid"

// rapid's integer and SampledFrom generators are deliberately biased towards
// small values / early elements (about 10% each for the first two of 40).
// unif builds an (almost) uniform draw from fair booleans for the places where
// the generator needs a stated probability; it shrinks towards 0.
func unif(t *rapid.T, label string, n int) int {
	if n <= 1 {
		return 0
	}
	bits := 0
	for (1 << bits) < n*8 { // 3 extra bits keep the modulo bias below 1/8 per value
		bits++
	}
	x := 0
	for i := 0; i < bits; i++ {
		if rapid.Bool().Draw(t, label) {
			x |= 1 << i
		}
	}
	return x % n
}

// chance is true with probability about pct/100 (false shrinks first).
func chance(t *rapid.T, label string, pct int) bool {
	return unif(t, label, 100) >= 100-pct
}

func pick[E any](t *rapid.T, label string, xs []E) E {
	return xs[unif(t, label, len(xs))]
}

package harness

// Test entry point and the generic "generated case -> oracle" runner shared by
// every property check. See /verif/DESIGN.md section 2.

import (
	"bufio"
	"encoding/json"
	"flag"
	"fmt"
	"os"
	"path/filepath"
	"runtime/debug"
	"strconv"
	"strings"
	"sync/atomic"
	"testing"

	"pgregory.net/rapid"
)

var (
	envProp   = os.Getenv("VERIF_PROP")
	envTier   = getenvDefault("VERIF_TIER", "quick")
	envSeed   = getenvInt("VERIF_SEED", 1)
	envShard  = int(getenvInt("VERIF_SHARD", 0))
	envShards = int(getenvInt("VERIF_SHARDS", 1))
	envReplay = os.Getenv("VERIF_REPLAY")
	envScale  = getenvFloat("VERIF_SCALE", 1.0) // multiply case counts (development aid)
	verifDir  = getenvDefault("VERIF_DIR", "/verif")

	Ev *Evidence

	knownFindings []knownFinding
	violationSeen atomic.Bool
)

type knownFinding struct {
	Prop string
	Key  string
	What string
}

func getenvDefault(k, d string) string {
	if v := os.Getenv(k); v != "" {
		return v
	}
	return d
}

func getenvInt(k string, d int64) int64 {
	if v := os.Getenv(k); v != "" {
		if n, err := strconv.ParseInt(v, 10, 64); err == nil {
			return n
		}
	}
	return d
}

func getenvFloat(k string, d float64) float64 {
	if v := os.Getenv(k); v != "" {
		if n, err := strconv.ParseFloat(v, 64); err == nil {
			return n
		}
	}
	return d
}

func thorough() bool { return envTier == "thorough" }

func loadKnownFindings() {
	f, err := os.Open(filepath.Join(verifDir, "KNOWN_FINDINGS.txt"))
	if err != nil {
		return
	}
	defer f.Close()
	sc := bufio.NewScanner(f)
	for sc.Scan() {
		line := strings.TrimSpace(sc.Text())
		if !strings.HasPrefix(line, "known:") {
			continue
		}
		// known: property=Cxx key=<signature> <what fails>
		fields := strings.Fields(strings.TrimPrefix(line, "known:"))
		var kf knownFinding
		rest := []string{}
		for _, fd := range fields {
			switch {
			case strings.HasPrefix(fd, "property=") && kf.Prop == "":
				kf.Prop = strings.TrimPrefix(fd, "property=")
			case strings.HasPrefix(fd, "key=") && kf.Key == "":
				kf.Key = strings.TrimPrefix(fd, "key=")
			default:
				rest = append(rest, fd)
			}
		}
		kf.What = strings.Join(rest, " ")
		if kf.Prop != "" && kf.Key != "" {
			knownFindings = append(knownFindings, kf)
		}
	}
}

func isKnown(prop, key string) bool {
	if key == "" {
		return false
	}
	for _, k := range knownFindings {
		if k.Prop == prop && k.Key == key {
			return true
		}
	}
	return false
}

func TestMain(m *testing.M) {
	flag.Parse()
	if envProp == "" {
		// Plain `go test` of the harness (development): behave like a quick run
		// of whatever -run selects, evidence to a scratch dir.
		envProp = "DEV"
	}
	loadKnownFindings()
	Ev = NewEvidence(envProp, envTier, envSeed)
	flag.Set("rapid.nofailfile", "true")
	os.RemoveAll("testdata/rapid")

	code := m.Run()

	evDir := getenvDefault("VERIF_EVIDENCE_DIR", filepath.Join(verifDir, "evidence"))
	if envProp != "DEV" && envReplay == "" {
		os.MkdirAll(evDir, 0o755)
		path := filepath.Join(evDir, envProp+".json")
		part := envShards > 1
		if part {
			os.MkdirAll(filepath.Join(evDir, ".parts"), 0o755)
			path = filepath.Join(evDir, ".parts", fmt.Sprintf("%s.%d.json", envProp, envShard))
		}
		if err := Ev.Write(path, part); err != nil {
			fmt.Printf("INFRA: cannot write evidence: %v\n", err)
			code = 2
		}
	}
	// One line per listed known finding of this property (the brief's contract).
	for _, k := range knownFindings {
		if k.Prop == envProp {
			Ev.mu.Lock()
			n := Ev.known[k.Key]
			Ev.mu.Unlock()
			fmt.Printf("KNOWN-FINDING: property=%s key=%s observed=%d %s\n", k.Prop, k.Key, n, k.What)
		}
	}
	if infraFailed.Load() {
		for _, m := range infraMsgs {
			fmt.Printf("INFRA: %s\n", m)
		}
		if !violationSeen.Load() {
			code = 2
		}
	}
	os.Exit(code)
}

type replayFile struct {
	Property string          `json:"property"`
	Phase    string          `json:"phase"`
	Message  string          `json:"message"`
	Case     json.RawMessage `json:"case"`
	Extra    any             `json:"extra,omitempty"`
}

func replayPath(phase string) string {
	dir := getenvDefault("VERIF_REPLAY_DIR", filepath.Join(verifDir, "replays"))
	os.MkdirAll(dir, 0o755)
	name := fmt.Sprintf("%s-%s-seed%d", envProp, phase, envSeed)
	if envShards > 1 {
		name += fmt.Sprintf("-s%d", envShard)
	}
	return filepath.Join(dir, name+".json")
}

func writeReplay(phase string, c any, v *Violation, extra any) string {
	b, err := json.Marshal(c)
	if err != nil {
		b = []byte(fmt.Sprintf("%q", fmt.Sprintf("unserialisable case: %v", err)))
	}
	rf := replayFile{Property: envProp, Phase: phase, Message: v.Msg, Case: b, Extra: extra}
	out, _ := json.MarshalIndent(rf, "", " ")
	p := replayPath(phase)
	os.WriteFile(p, out, 0o644)
	return p
}

func phaseSeed(phase string) uint64 {
	s := uint64(envSeed)*1000003 + uint64(envShard)*7919 + hash64(phase)%1000
	s &= (1 << 62) - 1
	if s == 0 {
		s = 0x5eed
	}
	return s
}

// count picks the number of cases for the tier, divided over shards.
// quickScale multiplies the quick-tier case counts of the checks that finish in
// a few seconds on an idle 16-core machine, so that the quick tier's detection
// of the seeded changes does not hinge on one lucky draw (measured: every check
// stays well under a minute idle, a few minutes with the machine saturated).
var quickScale = map[string]int{
	"C01": 4, "C02": 4, "C04": 3, "C05": 2, "C06": 3, "C07": 3, "C09": 3, "C11": 5, "C12": 5, "C13": 15, "C14": 5,
	"C15": 3, "C16": 5, "C17": 3, "C18": 3, "C19": 3, "C21": 2, "C22": 3, "C24": 4, "C25": 4, "C27": 2,
}

func count(quickN, thoroughN int) int {
	n := quickN
	if k := quickScale[envProp]; k > 1 {
		n *= k
	}
	if thorough() {
		n = thoroughN
	}
	n = int(float64(n) * envScale)
	if envShards > 1 {
		n = (n + envShards - 1) / envShards
	}
	if n < 1 {
		n = 1
	}
	return n
}

// safeRun runs the oracle on a case, converting a panic that unwinds through
// this goroutine (harness or code under test) into a violation.
func safeRun[C any](run func(C) *Violation, c C) (v *Violation) {
	defer func() {
		if r := recover(); r != nil {
			v = &Violation{Msg: fmt.Sprintf("panic: %v\n%s", r, debug.Stack())}
		}
	}()
	return run(c)
}

// runChecks is the generic driver of one phase of one property: generate n
// cases with rapid (shrinking included), judge each with run, write the shrunk
// failing case as the replay file, print the VIOLATION line. In replay mode
// the case comes from the file and rapid is bypassed.
func runChecks[C any](t *testing.T, phase string, quickN, thoroughN int, gen *rapid.Generator[C], run func(C) *Violation) {
	t.Helper()
	handle := func(c C, v *Violation) *Violation {
		if v == nil {
			return nil
		}
		if isKnown(envProp, v.Key) {
			Ev.Known(v.Key)
			Ev.Excluded(1)
			return nil
		}
		return v
	}

	if envReplay != "" {
		b, err := os.ReadFile(envReplay)
		if err != nil {
			infra("cannot read replay file: %v", err)
			t.Fatalf("cannot read replay file: %v", err)
		}
		var rf replayFile
		if err := json.Unmarshal(b, &rf); err != nil {
			infra("bad replay file: %v", err)
			t.Fatalf("bad replay file: %v", err)
		}
		if rf.Phase != phase {
			return
		}
		var c C
		if err := json.Unmarshal(rf.Case, &c); err != nil {
			infra("bad replay case: %v", err)
			t.Fatalf("bad replay case: %v", err)
		}
		if v := handle(c, safeRun(run, c)); v != nil {
			violationSeen.Store(true)
			Ev.Violation()
			fmt.Printf("VIOLATION property=%s replay=%s\n%s\n", envProp, envReplay, v.Msg)
			t.Fail()
		} else {
			fmt.Printf("REPLAY-OK property=%s phase=%s\n", envProp, phase)
		}
		return
	}

	n := count(quickN, thoroughN)
	flag.Set("rapid.checks", strconv.Itoa(n))
	flag.Set("rapid.seed", strconv.FormatUint(phaseSeed(phase), 10))
	var lastReplay string
	var lastMsg string
	var executed int64
	ok := t.Run(phase, func(st *testing.T) {
		rapid.Check(st, func(rt *rapid.T) {
			c := gen.Draw(rt, "case")
			atomic.AddInt64(&executed, 1)
			if v := handle(c, safeRun(run, c)); v != nil {
				lastReplay = writeReplay(phase, c, v, nil)
				lastMsg = v.Msg
				rt.Fatalf("%s", v.Msg)
			}
		})
	})
	Ev.Add("executions_"+phase, atomic.LoadInt64(&executed))
	if !ok {
		if lastReplay == "" {
			// rapid failed without an oracle verdict (generator problem, flaky
			// draw): a harness problem, not a property verdict.
			infra("phase %s failed without a violation verdict (generator/harness error)", phase)
			return
		}
		violationSeen.Store(true)
		Ev.Violation()
		msg := lastMsg
		if len(msg) > 2000 {
			msg = msg[:2000] + "..."
		}
		fmt.Printf("VIOLATION property=%s replay=%s\n%s\n", envProp, lastReplay, msg)
	}
}


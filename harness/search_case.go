package harness

// Shared execution of "history + queries" cases for the search-path
// properties: C01 (no false negatives), C02 (exactness), C23 (stats), C24
// (pruning). One run produces, per query, the returned rows, the terminal
// error, the statistics and the DataStore call log; each property judges it
// with its own oracle.

import (
	"runtime"
	"context"
	"fmt"
	"sort"
	"time"

	bs "github.com/danthegoodman1/bloomsearch"
	"pgregory.net/rapid"
)

type SearchCase struct {
	Hist     History     `json:"hist"`
	Queries  []QuerySpec `json:"queries"`
	MetaMode string      `json:"metamode,omitempty"` // "", "ignore-prefilter", "desc-blocks", "reverse-files", "rotate-blocks"
	QConc    int         `json:"qconc,omitempty"`    // MaxQueryConcurrency override for the querying engine
	// QFaults: one-shot store failures during individual queries (transient
	// faults: the next call of that kind succeeds again)
	QFaults []QFault `json:"qfaults,omitempty"`
}

type QFault struct {
	Q    int    `json:"q"`    // query index
	Kind string `json:"kind"` // OpenFile, Read, Seek
	N    int    `json:"n"`    // ordinal among the query's calls of that kind
}

// genSearchCaseFaulted: the same cases with a transient store failure inside
// about half of the queries.
func genSearchCaseFaulted(o HistOpts, nq int, withPrefilter bool) *rapid.Generator[SearchCase] {
	base := genSearchCase(o, nq, withPrefilter)
	return rapid.Custom(func(t *rapid.T) SearchCase {
		c := base.Draw(t, "base")
		for qi := range c.Queries {
			if chance(t, "qfault", 55) {
				c.QFaults = append(c.QFaults, QFault{Q: qi, Kind: pick(t, "qfkind", []string{"OpenFile", "OpenFile", "Read", "Seek"}), N: rapid.IntRange(0, 5).Draw(t, "qfn")})
			}
		}
		return c
	})
}

var metaModes = []string{"", "", "", "ignore-prefilter", "desc-blocks", "reverse-files", "rotate-blocks"}

func genSearchCase(o HistOpts, nq int, withPrefilter bool) *rapid.Generator[SearchCase] {
	return rapid.Custom(func(t *rapid.T) SearchCase {
		h := drawHistory(t, o)
		rows := simulateRows(h)
		pools := buildPools(rows)
		n := rapid.IntRange(1, nq).Draw(t, "nqueries")
		qs := make([]QuerySpec, n)
		for i := range qs {
			qp := pools
			if len(rows) > 0 {
				tp := buildPools([]simRow{rows[unif(t, "target", len(rows))]})
				qp.Target = &tp
			}
			qs[i] = drawQuery(t, qp, withPrefilter)
			if o.MinMaxHeavy && qs[i].Q != nil {
				// prefilter is the subject: always present, bloom/regex mostly absent
				e := drawPrefilterTree(t, qp.NumKeys, qp.Nums, qp.Parts, 2)
				qs[i].Q.Prefilter = &bs.QueryPrefilter{Expression: &e}
				if chance(t, "prefonly", 75) {
					qs[i].Q.Bloom, qs[i].Q.Regex = nil, nil
				}
			}
		}
		c := SearchCase{Hist: h, Queries: qs}
		c.MetaMode = rapid.SampledFrom(metaModes).Draw(t, "metamode")
		c.QConc = rapid.SampledFrom([]int{0, 1, 2, 4}).Draw(t, "qconc")
		return c
	})
}

// QueryRun is what one query did.
type QueryRun struct {
	Spec     QuerySpec
	QueryErr error // Query() returned an error
	Rows     []map[string]any
	IDs      []int // id per returned row (-1 when the row has no usable id)
	Err      error // Results.Err() after Next returned false
	Stats    bs.QueryStats
	Calls    []CallRec   // DataStore/MetaStore calls made during the query
	Handles  []HandleRec // read handles opened during the query
	FaultPlanned bool    // a transient store failure was scheduled for this query
	StatsPolled  bool    // Stats was also read while the query was in flight
}

type SearchRun struct {
	Case   SearchCase
	World  *World
	Files  []*FileInfo        // world as read back before the queries
	Where  map[int]*BlockInfo // id -> block
	Runs   []QueryRun
	Stored map[int]*StoredRow // acked rows
	After  []*FileInfo        // world read back after the queries
}

func collectResults(res *bs.Results, limit time.Duration, pollStats ...bool) ([]map[string]any, error, bool) {
	type out struct {
		rows []map[string]any
		err  error
	}
	done := make(chan out, 1)
	poll := len(pollStats) > 0 && pollStats[0]
	quit := make(chan struct{})
	if poll {
		// a progress reporter: Stats is read while the query is in flight, from
		// another goroutine and between rows; only the snapshot taken after Next
		// returned false is judged
		go func() {
			for {
				select {
				case <-quit:
					return
				default:
					res.Stats()
					runtime.Gosched()
				}
			}
		}()
	}
	go func() {
		defer close(quit)
		var rows []map[string]any
		for res.Next() {
			rows = append(rows, res.Row())
			if poll {
				res.Stats()
			}
		}
		done <- out{rows, res.Err()}
	}()
	select {
	case o := <-done:
		return o.rows, o.err, true
	case <-time.After(limit):
		return nil, nil, false
	}
}

// runQueries executes the queries one after another on eng (whose stores are
// wrapped by tr) and records rows, terminal error, stats and the call log.
func runQueries(eng *bs.BloomSearchEngine, tr *Trace, queries []QuerySpec, faults ...QFault) ([]QueryRun, *Violation) {
	var runs []QueryRun
	defer func() { tr.Before = nil }()
	for qi, qs := range queries {
		tr.ResetLog()
		run := QueryRun{Spec: qs}
		tr.Before = nil
		for _, f := range faults {
			if f.Q == qi {
				f := f
				run.FaultPlanned = true
				tr.Before = func(ci *CallInfo) error {
					if ci.Kind == f.Kind && ci.KindSeq == f.N {
						return fmt.Errorf("transient %s failure: %w", f.Kind, errInjected)
					}
					return nil
				}
			}
		}
		res, qerr := eng.Query(context.Background(), qs.Query())
		if qerr != nil {
			run.QueryErr = qerr
			runs = append(runs, run)
			continue
		}
		rows, rerr, ok := collectResults(res, 120*time.Second, qi%2 == 1)
		if !ok {
			return nil, violf("query did not finish within 120s on healthy in-memory stores: %s", shortJSON(qs, 600))
		}
		res.Close()
		run.Rows, run.Err = rows, rerr
		run.StatsPolled = qi%2 == 1
		run.Stats = res.Stats()
		run.Calls = tr.Calls()
		run.Handles = tr.Handles()
		for _, r := range rows {
			id, ok := rowID(r)
			if !ok {
				id = -1
			}
			run.IDs = append(run.IDs, id)
		}
		runs = append(runs, run)
	}
	return runs, nil
}

// execSearchCase runs the history and the queries. A non-nil Violation means
// the history or a query could not be executed on healthy stores.
func execSearchCase(c SearchCase) (*SearchRun, *Violation) {
	w, err := RunHistory(c.Hist)
	if err != nil {
		return nil, violf("history failed on healthy stores: %v", err)
	}
	sr := &SearchRun{Case: c, World: w, Where: map[int]*BlockInfo{}, Stored: map[int]*StoredRow{}}
	files, err := ReadWorld(w.Data, w.Meta)
	if err != nil {
		w.Close()
		return nil, violf("stored files cannot be read back through the public helpers: %v", err)
	}
	sr.Files = files
	for _, f := range files {
		for _, b := range f.Blocks {
			for _, id := range b.IDs {
				if id >= 0 {
					if _, dup := sr.Where[id]; !dup {
						sr.Where[id] = b
					}
				}
			}
		}
	}
	for id, r := range w.Rows {
		if r.Acked {
			sr.Stored[id] = r
		}
	}

	var ms bs.MetaStore = w.Meta
	if c.MetaMode != "" {
		ms = &MetaVariant{Inner: w.Meta, Mode: c.MetaMode}
	}
	tr := NewTrace(w.Data, ms)
	cfg := w.LastCfg
	if c.QConc > 0 {
		cfg.QueryConc = c.QConc
	}
	eng, err := w.NewEngine(cfg, tr, tr)
	if err != nil {
		w.Close()
		return nil, violf("engine construction failed: %v", err)
	}
	runs, v := runQueries(eng, tr, c.Queries, c.QFaults...)
	if v != nil {
		w.Close()
		return nil, v
	}
	sr.Runs = runs
	after, err := ReadWorld(w.Data, w.Meta)
	if err != nil {
		w.Close()
		return nil, violf("stored files cannot be read back after the queries: %v", err)
	}
	sr.After = after
	return sr, nil
}

// expectation computes, for one query, the ids that must be returned (lower)
// and the ids that may be returned (upper) under the reference semantics.
type expectation struct {
	Problem   string       // regex problem: Query must/may reject
	MustMatch map[int]bool // stored, decidable, matches bloom+regex AND own partition/minmax values satisfy the prefilter
	Matches   map[int]bool // stored, decidable, matches bloom+regex (prefilter ignored)
	Unknown   map[int]bool // stored rows the oracle cannot decide
}

func (sr *SearchRun) expect(qs QuerySpec) expectation {
	q := qs.Query()
	ex := expectation{MustMatch: map[int]bool{}, Matches: map[int]bool{}, Unknown: map[int]bool{}}
	if q != nil && q.Regex != nil {
		ex.Problem = regexProblem(q.Regex.Expression)
	}
	if ex.Problem != "" {
		return ex
	}
	var pre *bs.QueryPrefilter
	if q != nil {
		pre = q.Prefilter
	}
	for id, r := range sr.Stored {
		if r.Unknown {
			ex.Unknown[id] = true
			continue
		}
		if !rowMatches(r.Sem, q) {
			continue
		}
		ex.Matches[id] = true
		if rowSatisfiesPrefilter(r.Facts, pre) {
			ex.MustMatch[id] = true
		}
	}
	return ex
}

func hasPrefilter(qs QuerySpec) bool {
	q := qs.Query()
	return q != nil && q.Prefilter != nil && q.Prefilter.Expression != nil
}

func sortedIDs(m map[int]bool) []int {
	out := make([]int, 0, len(m))
	for id := range m {
		out = append(out, id)
	}
	sort.Ints(out)
	return out
}

func (sr *SearchRun) layoutShape() string {
	s := ""
	for _, f := range sr.Files {
		s += fmt.Sprintf("[%d:", len(f.Blocks))
		for _, b := range f.Blocks {
			s += fmt.Sprintf("%d,", len(b.IDs))
		}
		s += "]"
	}
	return s
}

func (sr *SearchRun) numBlocks() int {
	n := 0
	for _, f := range sr.Files {
		n += len(f.Blocks)
	}
	return n
}

func (sr *SearchRun) describeRow(id int) string {
	r := sr.World.Rows[id]
	if r == nil {
		return fmt.Sprintf("id %d (not in model)", id)
	}
	where := "nowhere"
	if b := sr.Where[id]; b != nil {
		where = fmt.Sprintf("file %s block@%d (partition %q, minmax %v, %d rows)", b.File, b.Meta.RowDataOffset, b.Meta.PartitionID, b.Meta.MinMaxIndexes, len(b.IDs))
	}
	return fmt.Sprintf("row %s stored in %s", r.JSON, where)
}

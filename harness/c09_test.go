package harness

// C09 — ingest applies bounded backpressure when flushing stalls.
// The store is stalled (ctx-ignoring gate) at a generated call while producers
// (with short ctx timeouts) and optional Flush callers keep pushing; the number
// of accepted but unanswered batches must stay below a bound that depends only
// on the configuration.

import (
	"context"
	"sync"
	"sync/atomic"
	"testing"
	"time"

	bs "github.com/danthegoodman1/bloomsearch"
	"pgregory.net/rapid"
)

type c09Case struct {
	IngestBuf int      `json:"ingestbuf"`
	BufRows   int      `json:"bufrows"`
	BatchRows int      `json:"batchrows"`
	BufTimeMs int      `json:"buftime_ms"` // 0 = 1h
	Gate      GateSpec `json:"gate"`
	Producers int      `json:"producers"`
	PauseUs   int      `json:"pause_us"` // producer pause between attempts (trickle)
	Flushers  int      `json:"flushers"`
	StallMs   int      `json:"stall_ms"`
	Procs     int      `json:"procs,omitempty"`
	// FailAll: every Write / Close fails, so each flush goes through its cleanup
	// path (Abort, TombstoneFile), which is where the gate then sits
	FailAll string `json:"fail_all,omitempty"`
	// UniqueParts: a partition function whose ids never repeat (one per row):
	// every flush carries partitions no other flush has
	UniqueParts bool `json:"unique_parts,omitempty"`
	// EmptyProducers: extra producers hammering IngestRows with empty batches
	// (no rows, no bytes: they fire no flush trigger of their own) while the
	// producers of rows trickle, so most accepted batches arrive while a
	// partially filled buffer is waiting for its trigger
	EmptyProducers int `json:"empty_producers,omitempty"`
}

func genC09() *rapid.Generator[c09Case] {
	return rapid.Custom(func(t *rapid.T) c09Case {
		c := c09Case{
			IngestBuf: pick(t, "ingestbuf", []int{1, 2, 4, 8}),
			BufRows:   pick(t, "bufrows", []int{1, 2, 3, 5}),
			BatchRows: pick(t, "batchrows", []int{1, 2, 3}),
			BufTimeMs: pick(t, "buftime", []int{0, 0, 40}),
			Gate:      GateSpec{Kind: pick(t, "gatekind", []string{"CreateFile", "Write", "Close", "Update"}), N: unif(t, "gaten", 2), IgnoreCtx: true, Release: "manual"},
			Producers: rapid.IntRange(1, 6).Draw(t, "producers"),
			PauseUs:   pick(t, "pause", []int{0, 0, 500, 5000}),
			Flushers:  pick(t, "flushers", []int{0, 0, 1, 2}),
			StallMs:   pick(t, "stall", []int{150, 300}),
			Procs:     pick(t, "procs", []int{0, 2, 4}),
		}
		c.UniqueParts = chance(t, "uniqueparts", 35)
		if chance(t, "cleanupstall", 25) {
			// the flush fails persistently and the store stalls inside the cleanup
			// of that failure: still a stalled flush, still one at a time
			c.FailAll = pick(t, "failall", []string{"Close", "Write"})
			c.Gate.Kind = pick(t, "cleanupgate", []string{"Abort", "Tombstone"})
			c.Gate.N = unif(t, "cleanupn", 2)
			c.Gate.All = true // the store is hung in that call kind: every such call stalls
			c.BufTimeMs = 0
		} else if chance(t, "overdue", 15) {
			// time-triggered flushes of a partially filled buffer: producers
			// trickle, MaxBufferedTime is short, and the stall lasts long enough
			// for an unbounded actor to overtake the bound
			c.BufRows = pick(t, "bigbuf", []int{20, 40})
			c.BatchRows = 1
			c.BufTimeMs = 40
			c.PauseUs = pick(t, "trickle", []int{1000, 2000})
			c.Producers = rapid.IntRange(1, 2).Draw(t, "fewproducers")
			c.StallMs = 1500
			c.Flushers = 0
		} else if chance(t, "flushstorm", 20) {
			// Flush calls arriving faster than the buffer fills: every Flush finds
			// a partially filled buffer while the pipeline is full
			c.BufRows = pick(t, "fsbuf", []int{3, 5})
			c.BatchRows = 1
			c.PauseUs = pick(t, "fspause", []int{500, 1000})
			c.Producers = rapid.IntRange(2, 4).Draw(t, "fsproducers")
			c.Flushers = 2
			c.StallMs = 300
		} else if chance(t, "emptymix", 25) {
			c.EmptyProducers = rapid.IntRange(1, 3).Draw(t, "emptyproducers")
			c.BufRows = pick(t, "embuf", []int{3, 5, 20})
			c.BatchRows = 1
			c.PauseUs = pick(t, "empause", []int{1000, 3000})
			c.Producers = rapid.IntRange(1, 2).Draw(t, "emproducers")
			c.BufTimeMs = pick(t, "embuftime", []int{0, 0, 40})
		}
		return c
	})
}

func runC09Once(c c09Case) (accepted, answered, attempts, bound int, v *Violation) {
	if c.Procs > 0 {
		prev := setProcs(c.Procs)
		defer setProcs(prev)
	}
	cfg := EngCfg{Tokenizer: "default", Compression: "none", FPR: 0.01, RGRows: 100000, RGBytes: 1 << 30,
		BufRows: c.BufRows, BufBytes: 1 << 30, BufTimeMs: c.BufTimeMs, IngestBuf: c.IngestBuf, QueryConc: 4,
		Partition: "none", MaxFileSize: 10 << 30, MaxMerge: 10}
	parts := 1
	if c.UniqueParts {
		cfg.Partition = "field"
		parts = 1 << 30
	}
	ds := NewMemDataStore(false)
	ms := bs.NewMemoryMetaStore()
	tr := NewTrace(ds, ms)
	ctl := NewStoreCtl(StoreScript{Gates: []GateSpec{c.Gate}, FailAll: c.FailAll})
	tr.Before = ctl.Hook
	eng, err := bs.NewBloomSearchEngine(cfg.Build(), tr, tr)
	if err != nil {
		return 0, 0, 0, 0, violf("config rejected: %v", err)
	}
	eng.Start()
	book := NewAckBook(tr.tick)
	defer book.StopReceivers()
	bg := context.Background()
	k := (c.BufRows + c.BatchRows - 1) / c.BatchRows // batches that fill one flush
	bound = c.IngestBuf + 4*k + 2

	var nAccepted, nAttempts int32
	stop := make(chan struct{})
	var wg sync.WaitGroup
	for p := 0; p < c.Producers+c.EmptyProducers; p++ {
		wg.Add(1)
		kind, pause := "good", c.PauseUs
		if p >= c.Producers {
			kind, pause = "empty", 0
		}
		go func() {
			defer wg.Done()
			for {
				select {
				case <-stop:
					return
				default:
				}
				b := book.NewBatch(kind, "buf", c.BatchRows, parts)
				ctx, cancel := context.WithTimeout(bg, 5*time.Millisecond)
				err := eng.IngestRows(ctx, b.Rows, b.Ch)
				cancel()
				atomic.AddInt32(&nAttempts, 1)
				if err == nil {
					b.mu.Lock()
					b.Accepted = true
					b.mu.Unlock()
					atomic.AddInt32(&nAccepted, 1)
				}
				if pause > 0 {
					time.Sleep(time.Duration(pause) * time.Microsecond)
				}
				if int(atomic.LoadInt32(&nAccepted)) > 20*bound+200 {
					return // far beyond any bound: no need to go on
				}
			}
		}()
	}
	for f := 0; f < c.Flushers; f++ {
		wg.Add(1)
		go func() {
			defer wg.Done()
			for {
				select {
				case <-stop:
					return
				default:
				}
				// fire and forget: an accepted Flush waits for its answer (which
				// only comes after the stall), one that cannot be enqueued gives
				// up after 5 ms; a new one is issued every millisecond
				go func() {
					ctx, cancel := context.WithTimeout(bg, 5*time.Millisecond)
					eng.Flush(ctx)
					cancel()
				}()
				time.Sleep(time.Millisecond)
			}
		}()
	}
	// wait for the stall to form, then let the producers push against it
	select {
	case <-ctl.Entered[0]:
	case <-time.After(2 * time.Second):
		close(stop)
		ctl.ReleaseAll()
		wg.Wait()
		sctx, cancel := context.WithTimeout(bg, 10*time.Second)
		eng.Stop(sctx)
		cancel()
		return 0, 0, 0, bound, nil // the gated call never happened: nothing to judge
	}
	time.Sleep(time.Duration(c.StallMs) * time.Millisecond)
	book.Collect()
	for _, b := range book.All() {
		b.mu.Lock()
		acc := b.Accepted
		b.mu.Unlock()
		if acc {
			accepted++
			if len(b.values()) > 0 {
				answered++
			}
		}
	}
	attempts = int(atomic.LoadInt32(&nAttempts))
	close(stop)
	ctl.ReleaseAll()
	wg.Wait()
	// after release everything drains
	sctx, cancel := context.WithTimeout(bg, 20*time.Second)
	serr := eng.Stop(sctx)
	cancel()
	if serr != nil {
		return accepted, answered, attempts, bound, violf("after the stall was released Stop failed: %v", serr)
	}
	book.Collect()
	for _, b := range book.All() {
		b.mu.Lock()
		acc := b.Accepted
		b.mu.Unlock()
		if acc && len(b.values()) != 1 {
			return accepted, answered, attempts, bound, violf("after the stall was released and Stop returned nil, accepted batch #%d has %d answers", b.N, len(b.values()))
		}
	}
	return accepted, answered, attempts, bound, nil
}

func runC09(c c09Case) *Violation {
	Ev.Eval(1)
	acc, ans, att, bound, v := runC09Once(c)
	if v != nil {
		return v
	}
	if bound == 0 || att == 0 {
		return nil
	}
	if acc-ans > bound {
		// confirm by replay (the count depends on what the producers managed to push)
		for i := 0; i < 2; i++ {
			a2, n2, _, _, v2 := runC09Once(c)
			if v2 != nil {
				return v2
			}
			if a2-n2 <= bound {
				Ev.Class("over-bound-not-reproduced(discarded)")
				return nil
			}
		}
		return violf("while the store was stalled at %s #%d for %d ms, %d batches were accepted and only %d answered: %d outstanding > bound %d (IngestBufferSize %d + 4*ceil(MaxBufferedRows %d / %d rows per batch) + 2); %d producers, %d Flush callers, MaxBufferedTime %d ms", c.Gate.Kind, c.Gate.N, c.StallMs, acc, ans, acc-ans, bound, c.IngestBuf, c.BufRows, c.BatchRows, c.Producers, c.Flushers, c.BufTimeMs)
	}
	if att >= 3*bound {
		Ev.Class("producers-attempted>=3x-bound")
		Ev.NonTrivial(jsonKey(c))
		if Ev.WantSample() {
			Ev.Sample(map[string]any{"case": c, "accepted": acc, "answered_during_stall": ans, "attempts": att, "bound": bound})
		}
	}
	if c.EmptyProducers > 0 {
		Ev.Class("with-producers-of-empty-batches")
	}
	if c.Flushers > 0 {
		Ev.Class("with-flush-callers")
	}
	if c.BufTimeMs > 0 {
		Ev.Class("stall-longer-than-MaxBufferedTime")
	}
	return nil
}

func TestC09(t *testing.T) {
	Ev.Rule = "case = IngestBufferSize 1-8, MaxBufferedRows 1-5, 1-3 rows per batch, MaxBufferedTime 1h or 40 ms (shorter than the stall), the store stalled by a ctx-ignoring gate at the 1st/2nd CreateFile/Write/Close/Update for 150-300 ms (or, in a quarter of the cases, every Write/Close failing and the gate inside the failed flush's cleanup: the 1st/2nd Abort/TombstoneFile), 1-6 producers hammering IngestRows with 5 ms ctx timeouts (optionally trickling), 0-2 goroutines calling Flush during the stall; in a sixth of the cases 1-3 further producers hammer empty batches while the producers of rows trickle. Oracle: at the end of the stall accepted - answered <= IngestBufferSize + 4*ceil(MaxBufferedRows/rowsPerBatch) + 2 (confirmed by two re-executions); after release Stop returns nil and every accepted batch has exactly one answer. Non-trivial: producers attempted >= 3x the bound during the stall; distinct by case."
	Ev.Assumptions = []string{"the bound is the harness's reading of 'ingest buffer size plus a few flushes' worth of batches': ingest queue + stalled flush + queued flush + the flush the actor is trying to enqueue, with slack"}
	runChecks(t, "stalls", 60, 4500, genC09(), runC09)
}

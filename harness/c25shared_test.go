package harness

// C25, "shared" phase — one expression VALUE used for several builder chains and
// constructor calls. The caller wrote k separate combinations of the same
// sub-expression; each resulting tree must still mean its own combination after
// all of them were built (no tree may change because another one was derived
// from the same value), and the shared value itself must not change. Values come
// from the constructors (cap == len), from JSON decoding and from append-built
// slices (spare capacity), which is where in-place extension first shows.

import (
	"encoding/json"
	"fmt"

	bs "github.com/danthegoodman1/bloomsearch"
	"pgregory.net/rapid"
)

type sharedUse struct {
	How   string `json:"how"` // chain, and, andrev, or, nestedor
	Atoms []F    `json:"atoms"`
}

type c25SharedCase struct {
	Kind  string      `json:"kind"` // bloom, regex, prefilter
	Base  F           `json:"base"`
	Via   string      `json:"via"` // ctor, json, append
	Spare int         `json:"spare"`
	Uses  []sharedUse `json:"uses"`
	Inter bool        `json:"interleave"` // builders: Match on all first, chained calls round-robin
	// Spread: the And/Or constructor calls receive their operands as ONE
	// caller-owned slice (`And(ops...)`) that the caller then re-fills for the
	// next call (`ops = append(ops[:0], ...)`), as a loop building one query per
	// tenant would
	Spread bool `json:"spread,omitempty"`
}

func genC25Shared() *rapid.Generator[c25SharedCase] {
	return rapid.Custom(func(t *rapid.T) c25SharedCase {
		c := c25SharedCase{Kind: pick(t, "kind", []string{"bloom", "regex", "prefilter", "bloom"})}
		// base: mostly an AND/OR group at the root so that flattening / extension paths are taken
		n := rapid.IntRange(1, 5).Draw(t, "nch")
		ch := make([]F, n)
		for i := range ch {
			ch[i] = drawF(t, 1, false)
		}
		c.Base = F{Op: pick(t, "rootop", []string{"and", "and", "or"}), Ch: ch, Raw: chance(t, "raw", 30)}
		if chance(t, "atomroot", 10) {
			c.Base = drawF(t, 2, false)
		}
		c.Via = pick(t, "via", []string{"json", "append", "ctor"})
		c.Spare = rapid.IntRange(1, 4).Draw(t, "spare")
		nu := rapid.IntRange(2, 4).Draw(t, "nuses")
		hows := []string{"chain", "chain", "and", "andrev", "or", "nestedor"}
		if c.Kind == "prefilter" {
			hows = []string{"and", "andrev", "or", "nestedor"}
		}
		for i := 0; i < nu; i++ {
			u := sharedUse{How: pick(t, "how", hows)}
			na := rapid.IntRange(1, 3).Draw(t, "natoms")
			for j := 0; j < na; j++ {
				u.Atoms = append(u.Atoms, F{Op: "atom", I: unif(t, "atom", c25Atoms), K: unif(t, "akind", 3)})
			}
			c.Uses = append(c.Uses, u)
		}
		c.Inter = chance(t, "inter", 50)
		c.Spread = chance(t, "spread", 35)
		return c
	})
}

func spareBloom(e bs.BloomExpression, spare int) bs.BloomExpression {
	if e.Children != nil {
		ch := make([]bs.BloomExpression, 0, len(e.Children)+spare)
		for _, c := range e.Children {
			ch = append(ch, spareBloom(c, spare))
		}
		e.Children = ch
	}
	return e
}
func spareRegex(e bs.RegexExpression, spare int) bs.RegexExpression {
	if e.Children != nil {
		ch := make([]bs.RegexExpression, 0, len(e.Children)+spare)
		for _, c := range e.Children {
			ch = append(ch, spareRegex(c, spare))
		}
		e.Children = ch
	}
	return e
}
func sparePref(e bs.PrefilterExpression, spare int) bs.PrefilterExpression {
	if e.Children != nil {
		ch := make([]bs.PrefilterExpression, 0, len(e.Children)+spare)
		for _, c := range e.Children {
			ch = append(ch, sparePref(c, spare))
		}
		e.Children = ch
	}
	return e
}

// useFormula is the combination the caller wrote for one use.
func useFormula(base F, u sharedUse) F {
	atoms := append([]F{}, u.Atoms...)
	switch u.How {
	case "chain", "and":
		return F{Op: "and", Ch: append([]F{base}, atoms...)}
	case "andrev":
		return F{Op: "and", Ch: append(atoms, base)}
	case "or":
		return F{Op: "or", Ch: append([]F{base}, atoms...)}
	default: // nestedor: And(Or(base, a0), rest...)
		return F{Op: "and", Ch: append([]F{{Op: "or", Ch: []F{base, atoms[0]}}}, atoms[1:]...)}
	}
}

func runC25Shared(c c25SharedCase) *Violation {
	Ev.Eval(1)
	Ev.Class("shared:" + c.Kind + ":" + c.Via)
	queries := make([]*bs.Query, len(c.Uses))
	var before, after string
	viaJSON := func(in, out any) *Violation {
		b, err := json.Marshal(in)
		if err != nil {
			return violf("expression does not marshal: %v", err)
		}
		if err := json.Unmarshal(b, out); err != nil {
			return violf("expression does not unmarshal: %v\njson: %s", err, b)
		}
		return nil
	}
	switch c.Kind {
	case "bloom":
		E := c.Base.bloom()
		switch c.Via {
		case "json":
			var d bs.BloomExpression
			if v := viaJSON(E, &d); v != nil {
				return v
			}
			E = d
		case "append":
			E = spareBloom(E, c.Spare)
		}
		before = jsonKey(E)
		opsB := make([]bs.BloomExpression, 0, 8)
		atom := func(a F) bs.BloomExpression { return a.bloom() }
		var builders []*bs.QueryBuilder
		for i, u := range c.Uses {
			var as []bs.BloomExpression
			for _, a := range u.Atoms {
				as = append(as, atom(a))
			}
			switch u.How {
			case "chain":
				b := bs.NewQuery().Match(E)
				builders = append(builders, b)
				if !c.Inter {
					for _, a := range u.Atoms {
						chainBloom(b, a)
					}
				}
				_ = i
			case "and":
				opsB = append(append(opsB[:0], E), as...)
				e := bs.And(spreadB(c.Spread, opsB)...)
				queries[i] = &bs.Query{Bloom: &bs.BloomQuery{Expression: &e}}
			case "andrev":
				opsB = append(append(opsB[:0], as...), E)
				e := bs.And(spreadB(c.Spread, opsB)...)
				queries[i] = &bs.Query{Bloom: &bs.BloomQuery{Expression: &e}}
			case "or":
				opsB = append(append(opsB[:0], E), as...)
				e := bs.Or(spreadB(c.Spread, opsB)...)
				queries[i] = &bs.Query{Bloom: &bs.BloomQuery{Expression: &e}}
			default:
				e := bs.And(append([]bs.BloomExpression{bs.Or(E, as[0])}, as[1:]...)...)
				queries[i] = &bs.Query{Bloom: &bs.BloomQuery{Expression: &e}}
			}
		}
		// chained calls, round-robin across the builders, then Build
		bi := 0
		var chains []int
		for i, u := range c.Uses {
			if u.How == "chain" {
				chains = append(chains, i)
			}
		}
		if c.Inter {
			for step := 0; step < 3; step++ {
				for k, i := range chains {
					if step < len(c.Uses[i].Atoms) {
						chainBloom(builders[k], c.Uses[i].Atoms[step])
					}
				}
			}
		}
		for _, i := range chains {
			queries[i] = builders[bi].Build()
			bi++
		}
		after = jsonKey(E)
	case "regex":
		E := c.Base.regex()
		switch c.Via {
		case "json":
			var d bs.RegexExpression
			if v := viaJSON(E, &d); v != nil {
				return v
			}
			E = d
		case "append":
			E = spareRegex(E, c.Spare)
		}
		before = jsonKey(E)
		opsR := make([]bs.RegexExpression, 0, 8)
		var builders []*bs.QueryBuilder
		var chains []int
		for i, u := range c.Uses {
			var as []bs.RegexExpression
			for _, a := range u.Atoms {
				as = append(as, a.regex())
			}
			switch u.How {
			case "chain":
				b := bs.NewQuery().MatchRegex(E)
				builders = append(builders, b)
				chains = append(chains, i)
				if !c.Inter {
					for _, a := range u.Atoms {
						chainRegex(b, a)
					}
				}
			case "and":
				opsR = append(append(opsR[:0], E), as...)
				e := bs.RegexAnd(spreadR(c.Spread, opsR)...)
				queries[i] = &bs.Query{Regex: &bs.RegexQuery{Expression: &e}}
			case "andrev":
				opsR = append(append(opsR[:0], as...), E)
				e := bs.RegexAnd(spreadR(c.Spread, opsR)...)
				queries[i] = &bs.Query{Regex: &bs.RegexQuery{Expression: &e}}
			case "or":
				opsR = append(append(opsR[:0], E), as...)
				e := bs.RegexOr(spreadR(c.Spread, opsR)...)
				queries[i] = &bs.Query{Regex: &bs.RegexQuery{Expression: &e}}
			default:
				e := bs.RegexAnd(append([]bs.RegexExpression{bs.RegexOr(E, as[0])}, as[1:]...)...)
				queries[i] = &bs.Query{Regex: &bs.RegexQuery{Expression: &e}}
			}
		}
		if c.Inter {
			for step := 0; step < 3; step++ {
				for k, i := range chains {
					if step < len(c.Uses[i].Atoms) {
						chainRegex(builders[k], c.Uses[i].Atoms[step])
					}
				}
			}
		}
		for k, i := range chains {
			queries[i] = builders[k].Build()
		}
		after = jsonKey(E)
	default:
		E := c.Base.prefilter()
		switch c.Via {
		case "json":
			var d bs.PrefilterExpression
			if v := viaJSON(E, &d); v != nil {
				return v
			}
			E = d
		case "append":
			E = sparePref(E, c.Spare)
		}
		before = jsonKey(E)
		opsP := make([]bs.PrefilterExpression, 0, 8)
		for i, u := range c.Uses {
			var as []bs.PrefilterExpression
			for _, a := range u.Atoms {
				as = append(as, a.prefilter())
			}
			var e bs.PrefilterExpression
			switch u.How {
			case "and", "chain":
				opsP = append(append(opsP[:0], E), as...)
				e = bs.PrefilterAnd(spreadP(c.Spread, opsP)...)
			case "andrev":
				opsP = append(append(opsP[:0], as...), E)
				e = bs.PrefilterAnd(spreadP(c.Spread, opsP)...)
			case "or":
				opsP = append(append(opsP[:0], E), as...)
				e = bs.PrefilterOr(spreadP(c.Spread, opsP)...)
			default:
				e = bs.PrefilterAnd(append([]bs.PrefilterExpression{bs.PrefilterOr(E, as[0])}, as[1:]...)...)
			}
			queries[i] = bs.NewQuery().MatchPrefilter(e).Build()
		}
		after = jsonKey(E)
	}
	if before != after {
		return violf("a shared %s expression value changed while other trees were derived from it:\nbefore %s\nafter  %s\ncase: %s", c.Kind, before, after, shortJSON(c, 1500))
	}
	for i, u := range c.Uses {
		f := useFormula(c.Base, u)
		want := truthTable(&f)
		got, qerr, herr := c25Run(queries[i])
		if herr != nil {
			return violf("fixed dataset unusable: %v", herr)
		}
		if qerr != nil {
			return violf("query built from valid constructors was rejected: %v\nquery: %s", qerr, shortJSON(queries[i], 1500))
		}
		if !sameInts(got, want) {
			return violf("use #%d (%s) of a shared %s expression does not mean what was written after %d trees were derived from the same value: truth table %v, the formula's is %v\ncase: %s\nquery: %s", i, u.How, c.Kind, len(c.Uses), got, want, shortJSON(c, 1500), shortJSON(queries[i], 2000))
		}
	}
	nchains := 0
	for _, u := range c.Uses {
		if u.How == "chain" {
			nchains++
		}
	}
	if nchains >= 2 {
		Ev.Class("shared:>=2 builder chains from one value")
	}
	if c.Via != "ctor" && (c.Base.Op == "and" || c.Base.Op == "or") {
		Ev.NonTrivial(fmt.Sprintf("shared|%s", jsonKey(c)))
		if Ev.WantSample() {
			Ev.Sample(map[string]any{"shared_case": c})
		}
	}
	return nil
}

func chainBloom(b *bs.QueryBuilder, a F) {
	switch a.K {
	case 0:
		b.Field(fmt.Sprintf("f%d", a.I))
	case 1:
		b.Token(fmt.Sprintf("t%d", a.I))
	default:
		b.FieldToken(fmt.Sprintf("ft%d", a.I), "v")
	}
}

func chainRegex(b *bs.QueryBuilder, a F) {
	switch a.K {
	case 0:
		b.FieldRegex(fmt.Sprintf("f%d", a.I), "^true$")
	case 1:
		b.FieldRegex("tk", fmt.Sprintf(`(^| )t%d( |$)`, a.I))
	default:
		b.FieldRegex(fmt.Sprintf("ft%d", a.I), "v")
	}
}


// spreadX: with reuse, the constructor receives the caller's own slice (whose
// backing array the next call re-fills); without, a private copy.
func spreadB(reuse bool, ops []bs.BloomExpression) []bs.BloomExpression {
	if reuse {
		return ops
	}
	return append([]bs.BloomExpression(nil), ops...)
}
func spreadR(reuse bool, ops []bs.RegexExpression) []bs.RegexExpression {
	if reuse {
		return ops
	}
	return append([]bs.RegexExpression(nil), ops...)
}
func spreadP(reuse bool, ops []bs.PrefilterExpression) []bs.PrefilterExpression {
	if reuse {
		return ops
	}
	return append([]bs.PrefilterExpression(nil), ops...)
}

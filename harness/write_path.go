package harness

// Shared machinery for the write-path schedule properties (C05, C07, C08, C09,
// C10): batches with observable done channels, programmable store behaviour
// (latency, one-shot failures, gates) behind the tracing wrapper, and custom
// context implementations.

import (
	"context"
	"fmt"
	"sync"
	"sync/atomic"
	"time"
)

// ---------------------------------------------------------------- batches

type AckObs struct {
	Err error
	T   int64 // logical time of observation
}

type WBatch struct {
	N        int    // ordinal (creation order)
	Kind     string // good, empty, bad
	ChanKind string // buf, unbuf, nil
	IDs      []int
	Rows     []map[string]any
	Ch       chan error

	mu       sync.Mutex
	Accepted bool
	CallT0   int64
	CallT1   int64
	CallErr  error
	Recv     []AckObs
	quit     chan struct{}
	// recvActive is set by the receiver goroutine of an unbuffered channel right
	// before its first receive: while it is 0 no send on the channel can have
	// completed, so the batch is certainly unanswered.
	recvActive int32
}

func (b *WBatch) values() []AckObs {
	b.mu.Lock()
	defer b.mu.Unlock()
	return append([]AckObs(nil), b.Recv...)
}

type AckBook struct {
	mu      sync.Mutex
	Batches []*WBatch
	clock   func() int64
	nextID  int32
	// Shared is ONE buffered done channel handed to every batch of chanKind
	// "shared" (legal: a producer may count acknowledgements on one channel);
	// SharedRecv holds what arrived on it
	Shared     chan error
	SharedRecv []AckObs
}

func NewAckBook(clock func() int64) *AckBook { return &AckBook{clock: clock} }

// NewBatch builds a batch of n rows (unique ids) and its done channel.
// chanKind: "buf" (capacity 4, so a second answer is observable), "unbuf"
// (unbuffered with a live receiver goroutine), "nil".
func (ab *AckBook) NewBatch(kind, chanKind string, n, parts int, recvDelay ...time.Duration) *WBatch {
	b := &WBatch{Kind: kind, ChanKind: chanKind, quit: make(chan struct{})}
	var delay time.Duration
	if len(recvDelay) > 0 {
		delay = recvDelay[0]
	}
	if kind == "empty" {
		n = 0
	}
	for i := 0; i < n; i++ {
		id := int(atomic.AddInt32(&ab.nextID, 1))
		row := map[string]any{"id": id, "msg": fmt.Sprintf("row %d", id), "p": fmt.Sprintf("p%d", id%maxInt(parts, 1))}
		if kind == "bad" && (i == n-1 || (i == n-2 && parts >= 2 && id%4 < 2)) {
			// the last row — and in half of the batches the row before it, which
			// falls into another partition — cannot be marshaled
			row["broken"] = make(chan int)
		}
		b.Rows = append(b.Rows, row)
		b.IDs = append(b.IDs, id)
	}
	if kind == "empty" {
		b.Rows = []map[string]any{}
	}
	switch chanKind {
	case "shared":
		ab.mu.Lock()
		if ab.Shared == nil {
			ab.Shared = make(chan error, 4096)
		}
		b.Ch = ab.Shared
		ab.mu.Unlock()
	case "buf":
		b.Ch = make(chan error, 4)
	case "unbuf":
		b.Ch = make(chan error)
		go func() {
			if delay > 0 {
				// a receiver that shows up late: delivery to this channel blocks
				// the flush worker (documented backpressure) until then
				select {
				case <-time.After(delay):
				case <-b.quit:
					return
				}
			}
			atomic.StoreInt32(&b.recvActive, 1)
			for {
				select {
				case err := <-b.Ch:
					b.mu.Lock()
					b.Recv = append(b.Recv, AckObs{err, ab.clock()})
					b.mu.Unlock()
				case <-b.quit:
					return
				}
			}
		}()
	}
	ab.mu.Lock()
	b.N = len(ab.Batches)
	ab.Batches = append(ab.Batches, b)
	ab.mu.Unlock()
	return b
}

// Collect moves every value currently sitting in buffered channels into Recv.
func (ab *AckBook) Collect() {
	ab.mu.Lock()
	bs := append([]*WBatch(nil), ab.Batches...)
	if ab.Shared != nil {
		for {
			select {
			case err := <-ab.Shared:
				ab.SharedRecv = append(ab.SharedRecv, AckObs{err, ab.clock()})
				continue
			default:
			}
			break
		}
	}
	ab.mu.Unlock()
	for _, b := range bs {
		if b.ChanKind != "buf" {
			continue
		}
		// receive and record under the batch's lock: Collect may be called from
		// several goroutines, and a value must never be off the channel but not
		// yet in Recv when another caller looks
		b.mu.Lock()
		for {
			select {
			case err := <-b.Ch:
				b.Recv = append(b.Recv, AckObs{err, ab.clock()})
				continue
			default:
			}
			break
		}
		b.mu.Unlock()
	}
}

func (ab *AckBook) StopReceivers() {
	ab.mu.Lock()
	defer ab.mu.Unlock()
	for _, b := range ab.Batches {
		select {
		case <-b.quit:
		default:
			close(b.quit)
		}
	}
}

func (ab *AckBook) All() []*WBatch {
	ab.mu.Lock()
	defer ab.mu.Unlock()
	return append([]*WBatch(nil), ab.Batches...)
}

// ---------------------------------------------------------------- store behaviour

type GateSpec struct {
	Kind      string `json:"kind"`      // call kind to hold
	N         int    `json:"n"`         // ordinal among calls of that kind (0-based)
	IgnoreCtx bool   `json:"ignorectx"` // keep blocking even when the call's ctx is done
	Release   string `json:"release"`   // "manual", "after-stop", "never"
	All       bool   `json:"all,omitempty"` // hold every call of that kind from ordinal N on (a hung store), not just the N-th
}

type StoreScript struct {
	LatencyUs map[string]int `json:"latency_us,omitempty"` // per call kind
	FailKind  []string       `json:"fail_kind,omitempty"`  // one-shot failures: kind[i] at ordinal FailN[i]
	FailN     []int          `json:"fail_n,omitempty"`
	Gates     []GateSpec     `json:"gates,omitempty"`
	// FailAll: every call of this kind fails (a persistently sick store call)
	FailAll string `json:"fail_all,omitempty"`
}

type StoreCtl struct {
	script   StoreScript
	mu       sync.Mutex
	gates    []chan struct{}
	released []bool
	Entered  []chan struct{} // closed when the gated call arrives
	entered  []bool
	Fired    map[string]bool
}

func NewStoreCtl(s StoreScript) *StoreCtl {
	c := &StoreCtl{script: s, Fired: map[string]bool{}}
	for range s.Gates {
		c.gates = append(c.gates, make(chan struct{}))
		c.Entered = append(c.Entered, make(chan struct{}))
		c.released = append(c.released, false)
		c.entered = append(c.entered, false)
	}
	return c
}

func (c *StoreCtl) ReleaseGate(i int) {
	c.mu.Lock()
	defer c.mu.Unlock()
	if i < len(c.gates) && !c.released[i] {
		c.released[i] = true
		close(c.gates[i])
	}
}

func (c *StoreCtl) ReleaseAll() {
	for i := range c.gates {
		c.ReleaseGate(i)
	}
}

func (c *StoreCtl) GateEntered(i int) bool {
	c.mu.Lock()
	defer c.mu.Unlock()
	return i < len(c.entered) && c.entered[i]
}

// Hook is installed as Trace.Before.
// FiredCount is the number of scripted failures that were actually delivered.
func (c *StoreCtl) FiredCount() int {
	c.mu.Lock()
	defer c.mu.Unlock()
	return len(c.Fired)
}

func (c *StoreCtl) Hook(ci *CallInfo) error {
	if us := c.script.LatencyUs[ci.Kind]; us > 0 {
		time.Sleep(time.Duration(us) * time.Microsecond)
	}
	for i, g := range c.script.Gates {
		if g.Kind == ci.Kind && (g.N == ci.KindSeq || (g.All && ci.KindSeq >= g.N)) {
			c.mu.Lock()
			if !c.entered[i] {
				c.entered[i] = true
				close(c.Entered[i])
			}
			ch := c.gates[i]
			c.mu.Unlock()
			if g.IgnoreCtx || ci.Ctx == nil {
				<-ch
			} else {
				select {
				case <-ch:
				case <-ci.Ctx.Done():
					return ci.Ctx.Err()
				}
			}
		}
	}
	if c.script.FailAll != "" && c.script.FailAll == ci.Kind {
		c.mu.Lock()
		c.Fired[ci.Kind+"#all"] = true
		c.mu.Unlock()
		return fmt.Errorf("%w (%s, persistent)", errInjected, ci.Kind)
	}
	for i, k := range c.script.FailKind {
		if k == ci.Kind && i < len(c.script.FailN) && c.script.FailN[i] == ci.KindSeq {
			c.mu.Lock()
			c.Fired[fmt.Sprintf("%s#%d", k, ci.KindSeq)] = true
			c.mu.Unlock()
			return fmt.Errorf("%w (%s #%d)", errInjected, k, ci.KindSeq)
		}
	}
	return nil
}

// ---------------------------------------------------------------- contexts

// lateAfterFuncCtx is a context implementation with its own Done channel and
// its own AfterFunc method (context.AfterFunc uses it): registered callbacks
// run only Delay after the context is done ("runs AfterFunc callbacks late").
type lateAfterFuncCtx struct {
	done     chan struct{}
	mu       sync.Mutex
	err      error
	deadline time.Time
	delay    time.Duration
	funcs    map[int]func()
	next     int
}

func newLateAfterFuncCtx(timeout, delay time.Duration) *lateAfterFuncCtx {
	c := &lateAfterFuncCtx{done: make(chan struct{}), deadline: time.Now().Add(timeout), delay: delay, funcs: map[int]func(){}}
	time.AfterFunc(timeout, func() {
		c.mu.Lock()
		c.err = context.DeadlineExceeded
		close(c.done)
		fs := c.funcs
		c.funcs = map[int]func(){}
		c.mu.Unlock()
		time.AfterFunc(delay, func() {
			for _, f := range fs {
				f()
			}
		})
	})
	return c
}

func (c *lateAfterFuncCtx) Deadline() (time.Time, bool) { return c.deadline, true }
func (c *lateAfterFuncCtx) Done() <-chan struct{}       { return c.done }
func (c *lateAfterFuncCtx) Err() error {
	c.mu.Lock()
	defer c.mu.Unlock()
	return c.err
}
func (c *lateAfterFuncCtx) Value(any) any { return nil }

// AfterFunc is the optional method context.AfterFunc looks for.
func (c *lateAfterFuncCtx) AfterFunc(f func()) func() bool {
	c.mu.Lock()
	defer c.mu.Unlock()
	if c.err != nil {
		go func() { time.Sleep(c.delay); f() }()
		return func() bool { return false }
	}
	id := c.next
	c.next++
	c.funcs[id] = f
	return func() bool {
		c.mu.Lock()
		defer c.mu.Unlock()
		if _, ok := c.funcs[id]; ok {
			delete(c.funcs, id)
			return true
		}
		return false
	}
}

// slowDoneCtx is a context whose Done() call itself blocks until released:
// a caller evaluating `case <-ctx.Done()` is parked between the engine's
// stopped check and its channel send.
type slowDoneCtx struct {
	context.Context
	gate    chan struct{}
	Parked  chan struct{}
	once    sync.Once
}

func newSlowDoneCtx() *slowDoneCtx {
	return &slowDoneCtx{Context: context.Background(), gate: make(chan struct{}), Parked: make(chan struct{})}
}

func (c *slowDoneCtx) Done() <-chan struct{} {
	c.once.Do(func() { close(c.Parked) })
	<-c.gate
	return c.Context.Done()
}

func (c *slowDoneCtx) Release() {
	select {
	case <-c.gate:
	default:
		close(c.gate)
	}
}

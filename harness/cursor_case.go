package harness

// Cursor scripts: a generated consumer schedule (Next xk, Close from this or
// another goroutine, context cancellation, stalls) over a generated dataset
// with store faults, latency and a gated MetaStore iteration. Shared by C20
// (terminal state), C21 (resource release), C22 (concurrency bound) and the
// fault phase of C23 (statistics).

import (
	"errors"
	"context"
	"fmt"
	"runtime"
	"strings"
	"sync"
	"sync/atomic"
	"time"

	bs "github.com/danthegoodman1/bloomsearch"
	"pgregory.net/rapid"
)

type CursorWorldSpec struct {
	Files  int `json:"files"`
	Blocks int `json:"blocks"` // per file (partitions)
	Rows   int `json:"rows"`   // per block
	// Big: one external-writer file whose blocks carry ~2.7 MB filter sections,
	// so the block filter region spans several 4 MiB chunk reads.
	Big bool `json:"big,omitempty"`
	// BadTail: in addition to the engine-written files, one external-writer file
	// ("file":"fx") with a single 10-row block whose row data ends in two garbage
	// bytes: a query that evaluates it returns its rows and then records a scan
	// failure (a failure in the middle of a block, not at a store call)
	BadTail bool `json:"badtail,omitempty"`
}

type cursorWorld struct {
	spec  CursorWorldSpec
	ds    *MemDataStore
	ms    *bs.MemoryMetaStore
	total int
	where map[int]blockID // row id -> block
	files []*FileInfo
	// badBlock identifies the malformed block of a BadTail world
	badBlock blockID
	badRows  int
}

var (
	cursorWorldMu    sync.Mutex
	cursorWorldCache = map[CursorWorldSpec]*cursorWorld{}
)

func getCursorWorld(spec CursorWorldSpec) (*cursorWorld, error) {
	cursorWorldMu.Lock()
	defer cursorWorldMu.Unlock()
	if w := cursorWorldCache[spec]; w != nil {
		return w, nil
	}
	cfg := bs.DefaultBloomSearchEngineConfig()
	cfg.MaxBufferedTime = time.Hour
	cfg.MaxBufferedRows, cfg.MaxBufferedBytes = 1<<30, 1<<30
	cfg.MaxRowGroupRows, cfg.MaxRowGroupBytes = 1<<30, 1<<30
	cfg.BloomFalsePositiveRate = 1e-6
	cfg.PartitionFunc = func(row map[string]any) string { s, _ := row["p"].(string); return s }
	ds := NewMemDataStore(false)
	ms := bs.NewMemoryMetaStore()
	eng, err := bs.NewBloomSearchEngine(cfg, ms, ds)
	if err != nil {
		return nil, err
	}
	eng.Start()
	ctx := context.Background()
	id := 0
	nfiles := spec.Files
	if spec.Big {
		w0 := &World{Data: ds, Meta: ms, MemData: ds, Rows: map[int]*StoredRow{}}
		var rows []Val
		for i := 0; i < spec.Blocks*spec.Rows; i++ {
			rows = append(rows, VObj(kv("p", VStr(fmt.Sprintf("p%d", i%spec.Blocks))), kv("tag", VStr("common")), kv("file", VStr("f0")), kv("only", VStr(fmt.Sprintf("f0b%d", i%spec.Blocks)))))
		}
		next := 1
		if _, err := writeExternalFile(w0, EngCfg{Tokenizer: "default", FPR: 1e-6}, 0, Step{Op: "ext", Rows: rows, Ext: &ExtOpt{Blocks: spec.Blocks, FilterPad: 250000}}, &next); err != nil {
			return nil, err
		}
		id = next - 1
		nfiles = 0 // nothing more to ingest below
	}
	for f := 0; f < nfiles; f++ {
		var rows []map[string]any
		for b := 0; b < spec.Blocks; b++ {
			for r := 0; r < spec.Rows; r++ {
				id++
				rows = append(rows, map[string]any{"id": id, "p": fmt.Sprintf("p%d", b), "tag": "common", "file": fmt.Sprintf("f%d", f), "only": fmt.Sprintf("f%db%d", f, b)})
			}
		}
		done := make(chan error, 1)
		if err := eng.IngestRows(ctx, rows, done); err != nil {
			return nil, err
		}
		if err := eng.Flush(ctx); err != nil {
			return nil, err
		}
		if err := <-done; err != nil {
			return nil, err
		}
	}
	sctx, cancel := context.WithTimeout(ctx, 30*time.Second)
	eng.Stop(sctx)
	cancel()
	w := &cursorWorld{spec: spec, ds: ds, ms: ms, total: id, where: map[int]blockID{}}
	files, err := ReadWorld(ds, ms)
	if err != nil {
		return nil, err
	}
	if spec.BadTail {
		// written after ReadWorld: the public read helpers (rightly) refuse this block
		known := map[string]bool{}
		for _, f := range files {
			known[f.Ptr] = true
		}
		w0 := &World{Data: ds, Meta: ms, MemData: ds, Rows: map[int]*StoredRow{}}
		var rows []Val
		const nbad = 10
		for i := 0; i < nbad; i++ {
			rows = append(rows, VObj(kv("p", VStr("px")), kv("tag", VStr("common")), kv("file", VStr("fx")), kv("only", VStr("fxb0"))))
		}
		next := id + 1
		if _, err := writeExternalFile(w0, EngCfg{Tokenizer: "default", FPR: 1e-6}, 0, Step{Op: "ext", Rows: rows, Ext: &ExtOpt{Blocks: 1, BadTail: 2, Part: "px"}}, &next); err != nil {
			return nil, err
		}
		for mf, err := range ms.GetMaybeFilesForQuery(ctx, nil) {
			if err != nil || known[string(mf.PointerBytes)] {
				continue
			}
			fi := &FileInfo{Ptr: string(mf.PointerBytes), Meta: mf.Metadata}
			for bi, bm := range mf.Metadata.DataBlocks {
				b := &BlockInfo{File: fi.Ptr, Meta: bm, Index: bi}
				for rid := id + 1; rid < next; rid++ {
					b.IDs = append(b.IDs, rid)
				}
				fi.Blocks = append(fi.Blocks, b)
				w.badBlock = blockID{fi.Ptr, bm.RowDataOffset}
				w.badRows = bm.Rows
			}
			files = append(files, fi)
		}
		id = next - 1
		w.total = id
	}
	w.files = files
	for _, f := range files {
		for _, b := range f.Blocks {
			for _, rid := range b.IDs {
				w.where[rid] = blockID{f.Ptr, b.Meta.RowDataOffset}
			}
		}
	}
	cursorWorldCache[spec] = w
	return w, nil
}

type CursorFault struct {
	Kind string `json:"kind"` // OpenFile Read Seek IterYield IterStart
	N    int    `json:"n"`    // ordinal among calls of that kind within the query
	// CtxWrap: the store's error wraps context.DeadlineExceeded (a store-side
	// timeout of its own: the query's context is alive)
	CtxWrap bool `json:"ctxwrap,omitempty"`
}

type CursorStep struct {
	Op    string `json:"op"` // next, close, cancel, stall, closepar (N goroutines call Close together)
	N     int    `json:"n,omitempty"`
	Ms    int    `json:"ms,omitempty"`
	Async bool   `json:"async,omitempty"` // close/cancel from another goroutine after Ms
}

type CursorCase struct {
	World     CursorWorldSpec `json:"world"`
	QConc     int             `json:"qconc"`
	Query     string          `json:"query"` // all, token, file0, only00, none
	Faults    []CursorFault   `json:"faults,omitempty"`
	LatencyUs int             `json:"latency_us,omitempty"` // on OpenFile/Read/Seek
	IterGate  int             `json:"itergate"`             // -1 none; else gate (ctx-honouring) at that IterYield
	Steps     []CursorStep    `json:"steps"`
	Lifecycle string          `json:"lifecycle"` // never, started, stopped
	Procs     int             `json:"procs,omitempty"`
	// Repeat: run the same script this many times (first violation wins): for
	// scripts whose interesting interleaving is a matter of a few percent
	Repeat int `json:"repeat,omitempty"`
	// CancelCause: the Query context is a WithCancelCause context cancelled with
	// a cause of the caller's own (ctx.Err() is still context.Canceled)
	CancelCause bool `json:"cancel_cause,omitempty"`
}

func cursorQuery(kind string) *bs.Query {
	switch kind {
	case "token":
		return bs.NewQuery().Token("common").Build()
	case "file0":
		return bs.NewQuery().FieldToken("file", "f0").Build()
	case "only00":
		return bs.NewQuery().FieldToken("only", "f0b0").Build()
	case "none":
		return bs.NewQuery().Token("absent-token").Build()
	}
	return nil
}

func genCursorCase(withFaults bool) *rapid.Generator[CursorCase] {
	return rapid.Custom(func(t *rapid.T) CursorCase {
		c := CursorCase{IterGate: -1}
		c.World = CursorWorldSpec{Files: pick(t, "files", []int{1, 2, 4, 6}), Blocks: pick(t, "blocks", []int{1, 2, 3, 6}), Rows: pick(t, "rows", []int{1, 10, 63, 70, 200})}
		c.QConc = pick(t, "qconc", []int{1, 2, 3, 8, 1000})
		c.Query = pick(t, "query", []string{"all", "token", "all", "file0", "only00", "none"})
		c.Lifecycle = pick(t, "life", []string{"never", "started", "stopped"})
		c.Procs = pick(t, "procs", []int{0, 2, 4})
		c.CancelCause = chance(t, "cancelcause", 40)
		if chance(t, "latency", 40) {
			c.LatencyUs = pick(t, "latus", []int{100, 500, 2000})
		}
		if withFaults && chance(t, "faults", 50) {
			n := rapid.IntRange(1, 3).Draw(t, "nfaults")
			for i := 0; i < n; i++ {
				c.Faults = append(c.Faults, CursorFault{Kind: pick(t, "fkind", []string{"Read", "OpenFile", "Read", "Seek", "IterYield", "IterStart", "Corrupt", "Corrupt"}), N: rapid.IntRange(0, 6).Draw(t, "fn"), CtxWrap: chance(t, "ctxwrap", 30)})
			}
		}
		if chance(t, "itergate", 20) {
			c.IterGate = rapid.IntRange(0, 3).Draw(t, "iteryield")
		}
		if withFaults && chance(t, "bigregion", 10) {
			// multi-chunk block filter region with a failure on a later chunk read
			c.World = CursorWorldSpec{Files: 1, Blocks: 6, Rows: 10, Big: true}
			// "only00" rules out five of the six blocks: blocks pruned in an earlier
			// chunk and a failure in a later one
			c.Query = pick(t, "bigquery", []string{"token", "only00", "only00"})
			c.IterGate = -1
			c.LatencyUs = 0
			c.Faults = []CursorFault{{Kind: pick(t, "bigfault", []string{"Read", "Read", "Corrupt", "Seek"}), N: rapid.IntRange(0, 5).Draw(t, "bign")}}
		}
		// consumer script
		total := c.World.Files * c.World.Blocks * c.World.Rows
		switch unif(t, "script", 16) {
		case 15:
			// blocks of exactly five 64-row batches on a small budget: after a stall
			// every worker is parked on the full row buffer with its budget slot
			// handed back. The consumer then reads up to the FIRST row of a new batch
			// (taking that batch un-parks one worker, which goes for its slot again)
			// and terminates at that very moment.
			c.World = CursorWorldSpec{Files: pick(t, "pfiles", []int{2, 3}), Blocks: pick(t, "pblocks", []int{2, 3}), Rows: 320}
			c.Query = pick(t, "pquery", []string{"all", "token"})
			c.QConc = pick(t, "pqconc", []int{1, 2, 3})
			c.LatencyUs = 0
			c.IterGate = -1
			c.Faults = nil
			c.Steps = append(c.Steps, CursorStep{Op: "next", N: 1}, CursorStep{Op: "stall", Ms: rapid.IntRange(3, 30).Draw(t, "pstall")},
				CursorStep{Op: "next", N: 64 * rapid.IntRange(1, 3).Draw(t, "pbatches")}, CursorStep{Op: pick(t, "pterm", []string{"close", "close", "cancel"})})
			c.Repeat = 12
			return c
		case 14:
			// many candidate files on a small budget and a consumer that stops
			// reading: the pipeline backs up all the way to the stage that pulls
			// candidates from the MetaStore; then Close (or cancel) must still end it
			c.World = CursorWorldSpec{Files: pick(t, "mfiles", []int{60, 90}), Blocks: 1, Rows: pick(t, "mrows", []int{10, 70})}
			c.Query = pick(t, "mquery", []string{"all", "token"})
			c.QConc = pick(t, "mqconc", []int{1, 2, 3})
			c.LatencyUs = 0
			c.IterGate = -1
			c.Faults = nil
			c.Steps = append(c.Steps, CursorStep{Op: "next", N: rapid.IntRange(0, 5).Draw(t, "mk")}, CursorStep{Op: "stall", Ms: rapid.IntRange(30, 80).Draw(t, "mstall")},
				CursorStep{Op: pick(t, "mterm", []string{"close", "close", "cancel"})})
			return c
		case 13:
			// a world with a malformed block: its rows scan, then the scan fails
			// (a failure in the middle of the pipeline, not at a store call)
			c.World = CursorWorldSpec{Files: pick(t, "bfiles", []int{2, 4}), Blocks: pick(t, "bblocks", []int{2, 3}), Rows: pick(t, "brows", []int{70, 200}), BadTail: true}
			c.Query = pick(t, "bquery", []string{"all", "token", "all", "file0"})
			c.Faults, c.LatencyUs = nil, 0
			c.IterGate = -1 // no gated iteration here: the script reads rows the gate would hold back
			c.QConc = pick(t, "bqconc", []int{1000, 8, 2})
			switch unif(t, "bscript", 4) {
			case 0:
				// plain drain
			case 1, 2:
				// the consumer stops reading; the small malformed block is long done
				// (its final partial batch parked on the full row buffer) when Close comes
				c.Steps = append(c.Steps, CursorStep{Op: "next", N: rapid.IntRange(0, 3).Draw(t, "bk")}, CursorStep{Op: "stall", Ms: rapid.IntRange(300, 400).Draw(t, "bstall")}, CursorStep{Op: "close"})
			default:
				c.Steps = append(c.Steps, CursorStep{Op: "next", N: rapid.IntRange(0, 40).Draw(t, "bk2")}, CursorStep{Op: "stall", Ms: rapid.IntRange(20, 120).Draw(t, "bstall2")}, CursorStep{Op: "cancel"})
			}
			return c
		case 12:
			// a failure is recorded early, the pipeline finishes, the consumer is
			// still walking through buffered rows (slowly) when another goroutine
			// calls Close: Next's own termination and Close race for the terminal state
			c.World = CursorWorldSpec{Files: pick(t, "rfiles", []int{2, 4}), Blocks: pick(t, "rblocks", []int{2, 3}), Rows: pick(t, "rrows", []int{70, 200})}
			c.Query = "all"
			c.LatencyUs = 0
			c.IterGate = -1
			c.QConc = pick(t, "rqconc", []int{1000, 8})
			c.Procs = pick(t, "rprocs", []int{0, 4, 2})
			if withFaults {
				c.Faults = []CursorFault{{Kind: pick(t, "rfk", []string{"OpenFile", "OpenFile", "Read"}), N: rapid.IntRange(0, 2).Draw(t, "rfn")}}
			}
			c.Steps = append(c.Steps, CursorStep{Op: "close", Async: true, Ms: rapid.IntRange(150, 220).Draw(t, "rms")}, CursorStep{Op: "nextslow", N: 150, Ms: 2})
			c.Repeat = 12
			return c
		case 10, 11:
			// several goroutines call Close at the same moment, mid-stream: each of
			// them must find the query wound down when ITS call returns
			c.Steps = append(c.Steps, CursorStep{Op: "next", N: rapid.IntRange(0, minInt(total, 100)).Draw(t, "k")}, CursorStep{Op: "closepar", N: rapid.IntRange(2, 4).Draw(t, "nclosers")})
			if c.LatencyUs == 0 && chance(t, "parlat", 70) {
				c.LatencyUs = pick(t, "parlatus", []int{2000, 500, 5000})
			}
		case 0, 1, 2:
			// plain drain
		case 3, 4:
			c.Steps = append(c.Steps, CursorStep{Op: "next", N: rapid.IntRange(0, minInt(total, 150)).Draw(t, "k")}, CursorStep{Op: "close"})
		case 5:
			c.Steps = append(c.Steps, CursorStep{Op: "next", N: rapid.IntRange(0, minInt(total, 150)).Draw(t, "k")}, CursorStep{Op: "cancel"})
		case 6:
			c.Steps = append(c.Steps, CursorStep{Op: "close", Async: true, Ms: rapid.IntRange(0, 10).Draw(t, "ms")})
		case 7:
			c.Steps = append(c.Steps, CursorStep{Op: "cancel", Async: true, Ms: rapid.IntRange(0, 10).Draw(t, "ms")})
		case 8:
			// stop exactly at a batch boundary (rows travel in batches of 64), let
			// the workers refill the row buffer, then terminate and drain
			k := pick(t, "boundary", []int{0, 64, 128, 1, 63, 65, total, total})
			c.Steps = append(c.Steps, CursorStep{Op: "next", N: k}, CursorStep{Op: "stall", Ms: rapid.IntRange(5, 40).Draw(t, "stall")},
				CursorStep{Op: pick(t, "term", []string{"cancel", "close", "cancel"})})
		default:
			c.Steps = append(c.Steps, CursorStep{Op: "close"}, CursorStep{Op: "close"}) // close before the first row, twice
		}
		if len(c.Faults) > 0 && chance(t, "settle", 60) {
			// give a failure that fired time to be recorded before a deliberate
			// Close decides the terminal state: Close must then report it
			var steps []CursorStep
			for _, st := range c.Steps {
				if (st.Op == "close" || st.Op == "closepar") && !st.Async {
					steps = append(steps, CursorStep{Op: "stall", Ms: rapid.IntRange(70, 130).Draw(t, "settlems")})
				}
				steps = append(steps, st)
			}
			c.Steps = steps
		}
		if c.IterGate >= 0 {
			// a gated iteration only ends through Close/cancel, and a scripted
			// "Next xk" could wait for rows the gate holds back: the script is a
			// single termination (asynchronous while Next is blocked, or direct)
			c.Steps = []CursorStep{{Op: pick(t, "gateend", []string{"close", "cancel"}), Async: rapid.Bool().Draw(t, "gateasync"), Ms: rapid.IntRange(1, 20).Draw(t, "gatems")}}
		}
		return c
	})
}

func minInt(a, b int) int {
	if a < b {
		return a
	}
	return b
}

// CursorObs is what one scripted query did.
type CursorObs struct {
	QueryErr     error
	Rows         []int // ids returned, in order
	Err          error // Err() after Next returned false
	ErrBeforeClose error
	ErrAfterClose  error
	ClosedExplicitly bool
	Cancelled    bool
	CancelBeforeFinalNext bool // cancel completed before the final Next began, and no Close
	CloseBeforeFalse bool
	FalseLatency time.Duration // from Close/cancel to Next returning false (0 if not terminated early)
	StaysFalse   bool
	CloseErrs    []error
	Fired        []string // sentinel names of faults that fired
	FiredAt      []time.Time
	Corrupted    int // reads that returned silently corrupted data before termination
	// CorruptedLate counts corrupted reads that started after the consumer had
	// begun to terminate the query (the mark is set before Close / cancel is
	// issued, so such a read can still complete and be recorded by the engine)
	CorruptedLate int
	RowsAfterSyncTermination int // rows Next handed out after a Close / cancel issued by the consumer itself had completed
	TermAt       time.Time
	FiredAfterTermination []string
	Stats        bs.QueryStats
	Handles      []HandleRec
	Calls        []CallRec
	IterOpenAtEnd int32
	IterOpenAtFalse int32
	HandlesAtFalse []HandleRec
	ErrAtFalse   error
	StatsAtFalse bs.QueryStats
	MaxReads     int32
	Timeout      string
	LateCloseChangedErr string
	// CloseSnaps: what the handle accounting looked like at the moment each
	// individual Close call returned (before the end of the stream)
	CloseSnaps []CloseSnap
	// WorldBad: the world holds a malformed block that this query's expression
	// does not rule out; BadBlock/BadRows identify it
	WorldBad bool
	BadBlock blockID
	BadRows  int
}

type CloseSnap struct {
	Who      string
	Handles  []HandleRec
	IterOpen int32
	Reads    int32
}

// runCursorCase executes the script. tr is created per case around the world's stores.
func runCursorCase(c CursorCase) (*CursorObs, *Trace, *bs.BloomSearchEngine, *Violation) {
	w, err := getCursorWorld(c.World)
	if err != nil {
		infra("cursor world: %v", err)
		return nil, nil, nil, nil
	}
	tr := NewTrace(w.ds, w.ms)
	var terminated int32
	gate := make(chan struct{})
	worldBad := c.World.BadTail && (c.Query == "all" || c.Query == "token")
	var gateOnce sync.Once
	openGate := func() { gateOnce.Do(func() { close(gate) }) }
	o := &CursorObs{WorldBad: worldBad, BadBlock: w.badBlock, BadRows: w.badRows}
	var fmu sync.Mutex
	tr.Before = func(ci *CallInfo) error {
		switch ci.Kind {
		case "OpenFile", "Read", "Seek":
			if c.LatencyUs > 0 {
				time.Sleep(time.Duration(c.LatencyUs) * time.Microsecond)
			}
		}
		if ci.Kind == "IterYield" && c.IterGate >= 0 && ci.KindSeq == c.IterGate {
			select {
			case <-gate:
			case <-ci.Ctx.Done():
				return ci.Ctx.Err()
			}
		}
		for i, f := range c.Faults {
			if f.Kind == "Corrupt" && ci.Kind == "Read" && f.N == ci.KindSeq {
				// silent corruption: the read succeeds with one flipped bit
				ci.CorruptRead = true
				fmu.Lock()
				if atomic.LoadInt32(&terminated) == 0 {
					o.Corrupted++
				} else {
					o.CorruptedLate++
				}
				fmu.Unlock()
				continue
			}
			if f.Kind == ci.Kind && f.N == ci.KindSeq {
				name := fmt.Sprintf("fault-%d-%s-%d", i, f.Kind, f.N)
				fmu.Lock()
				if atomic.LoadInt32(&terminated) == 0 {
					o.Fired = append(o.Fired, name)
					o.FiredAt = append(o.FiredAt, time.Now())
				} else {
					o.FiredAfterTermination = append(o.FiredAfterTermination, name)
				}
				fmu.Unlock()
				if f.CtxWrap {
					return fmt.Errorf("%s: %w: store-side timeout: %w", name, errInjected, context.DeadlineExceeded)
				}
				return fmt.Errorf("%s: %w", name, errInjected)
			}
		}
		return nil
	}
	cfg := bs.DefaultBloomSearchEngineConfig()
	cfg.MaxQueryConcurrency = c.QConc
	eng, err := bs.NewBloomSearchEngine(cfg, tr, tr)
	if err != nil {
		return nil, nil, nil, violf("config rejected: %v", err)
	}
	switch c.Lifecycle {
	case "started":
		eng.Start()
	case "stopped":
		eng.Start()
		sctx, cancel := context.WithTimeout(context.Background(), 10*time.Second)
		eng.Stop(sctx)
		cancel()
	}
	ctx, cancel := context.WithCancel(context.Background())
	if c.CancelCause {
		cctx, cc := context.WithCancelCause(context.Background())
		ctx, cancel = cctx, func() { cc(errors.New("client disconnected")) }
	}
	defer cancel()
	res, qerr := eng.Query(ctx, cursorQuery(c.Query))
	if qerr != nil {
		o.QueryErr = qerr
		return o, tr, eng, nil
	}
	var termAt time.Time
	var termMu sync.Mutex
	markTerm := func() {
		termMu.Lock()
		if termAt.IsZero() {
			termAt = time.Now()
			o.TermAt = termAt
		}
		termMu.Unlock()
		atomic.StoreInt32(&terminated, 1)
	}
	var snapMu sync.Mutex
	closeAndSnap := func(who string) error {
		err := res.Close()
		sn := CloseSnap{Who: who, Handles: tr.Handles(), IterOpen: atomic.LoadInt32(&tr.IterOpen), Reads: atomic.LoadInt32(&tr.readsNow)}
		snapMu.Lock()
		o.CloseSnaps = append(o.CloseSnaps, sn)
		snapMu.Unlock()
		return err
	}
	var asyncWG sync.WaitGroup
	var cancelDone int32
	var syncTermDone int32 // a Close / cancel issued from the consumer goroutine has completed
	nextWithTimeout := func(limit time.Duration) (bool, bool) {
		type r struct{ ok bool }
		ch := make(chan r, 1)
		go func() { ch <- r{res.Next()} }()
		select {
		case x := <-ch:
			return x.ok, true
		case <-time.After(limit):
			return false, false
		}
	}
	const nextLimit = 10 * time.Second
	gotFalse := false
	take := func(n int) bool { // returns false when Next returned false / timed out
		for i := 0; n < 0 || i < n; i++ {
			ok, inTime := nextWithTimeout(nextLimit)
			if !inTime {
				o.Timeout = "Next did not return within 10s"
				return false
			}
			if !ok {
				gotFalse = true
				return false
			}
			id, _ := rowID(res.Row())
			o.Rows = append(o.Rows, id)
			if atomic.LoadInt32(&syncTermDone) == 1 {
				o.RowsAfterSyncTermination++
			}
		}
		return true
	}
	for _, st := range c.Steps {
		if gotFalse || o.Timeout != "" {
			break
		}
		switch st.Op {
		case "next":
			take(st.N)
		case "stall":
			time.Sleep(time.Duration(st.Ms) * time.Millisecond)
		case "nextslow":
			for i := 0; i < st.N && !gotFalse && o.Timeout == ""; i++ {
				if !take(1) {
					break
				}
				time.Sleep(time.Duration(st.Ms) * time.Millisecond)
			}
		case "close":
			if st.Async {
				asyncWG.Add(1)
				go func(ms int) {
					defer asyncWG.Done()
					time.Sleep(time.Duration(ms) * time.Millisecond)
					markTerm()
					err := closeAndSnap("async Close")
					snapMu.Lock()
					o.CloseErrs = append(o.CloseErrs, err)
					snapMu.Unlock()
				}(st.Ms)
				o.ClosedExplicitly = true
			} else {
				o.ErrBeforeClose = res.Err()
				markTerm()
				done := make(chan error, 1)
				go func() { done <- closeAndSnap("Close") }()
				select {
				case err := <-done:
					snapMu.Lock()
					o.CloseErrs = append(o.CloseErrs, err)
					snapMu.Unlock()
				case <-time.After(nextLimit):
					o.Timeout = "Close did not return within 10s"
				}
				o.ErrAfterClose = res.Err()
				atomic.StoreInt32(&syncTermDone, 1)
				o.ClosedExplicitly = true
				if !gotFalse {
					o.CloseBeforeFalse = true
				}
			}
		case "closepar":
			o.ErrBeforeClose = res.Err()
			markTerm()
			start := make(chan struct{})
			alldone := make(chan struct{})
			var pwg sync.WaitGroup
			for i := 0; i < st.N; i++ {
				pwg.Add(1)
				go func(i int) {
					defer pwg.Done()
					<-start
					err := closeAndSnap(fmt.Sprintf("concurrent Close %d/%d", i+1, st.N))
					snapMu.Lock()
					o.CloseErrs = append(o.CloseErrs, err)
					snapMu.Unlock()
				}(i)
			}
			close(start)
			go func() { pwg.Wait(); close(alldone) }()
			select {
			case <-alldone:
			case <-time.After(nextLimit):
				o.Timeout = "concurrent Close calls did not all return within 10s"
			}
			o.ErrAfterClose = res.Err()
			atomic.StoreInt32(&syncTermDone, 1)
			o.ClosedExplicitly = true
			if !gotFalse {
				o.CloseBeforeFalse = true
			}
		case "cancel":
			if st.Async {
				asyncWG.Add(1)
				go func(ms int) {
					defer asyncWG.Done()
					time.Sleep(time.Duration(ms) * time.Millisecond)
					markTerm()
					cancel()
					atomic.StoreInt32(&cancelDone, 1)
				}(st.Ms)
			} else {
				markTerm()
				cancel()
				atomic.StoreInt32(&cancelDone, 1)
				atomic.StoreInt32(&syncTermDone, 1)
			}
			o.Cancelled = true
		}
	}
	// a gated iteration is only ended by Close/cancel; when the script has
	// neither, the gate opens now so the drain below can finish
	if !o.ClosedExplicitly && !o.Cancelled {
		openGate()
	}
	// drain to the end
	cancelledBefore := atomic.LoadInt32(&cancelDone) == 1
	for !gotFalse && o.Timeout == "" {
		cancelledBefore = atomic.LoadInt32(&cancelDone) == 1
		if !take(1) {
			break
		}
	}
	if o.Timeout != "" {
		openGate()
		cancel()
		return o, tr, eng, nil
	}
	falseAt := time.Now()
	o.IterOpenAtFalse = atomic.LoadInt32(&tr.IterOpen)
	o.HandlesAtFalse = tr.Handles()
	o.ErrAtFalse = res.Err()
	o.StatsAtFalse = res.Stats()
	termMu.Lock()
	if !termAt.IsZero() && falseAt.After(termAt) {
		o.FalseLatency = falseAt.Sub(termAt)
	}
	termMu.Unlock()
	o.Err = res.Err()
	o.CancelBeforeFinalNext = o.Cancelled && cancelledBefore && !o.ClosedExplicitly
	o.StaysFalse = !res.Next() && !res.Next() && res.Row() == nil
	asyncWG.Wait()
	// Close after the end: idempotent, returns nil, does not change Err
	errBefore := res.Err()
	var cwg sync.WaitGroup
	var cmu sync.Mutex
	for i := 0; i < 3; i++ {
		cwg.Add(1)
		go func() {
			defer cwg.Done()
			err := res.Close()
			cmu.Lock()
			o.CloseErrs = append(o.CloseErrs, err)
			cmu.Unlock()
		}()
	}
	cwg.Wait()
	if after := res.Err(); fmt.Sprint(after) != fmt.Sprint(errBefore) {
		o.LateCloseChangedErr = fmt.Sprintf("Err was %v when Next returned false and %v after Close", errBefore, after)
	}
	o.Stats = res.Stats()
	o.IterOpenAtEnd = atomic.LoadInt32(&tr.IterOpen)
	o.Handles = tr.Handles()
	o.Calls = tr.Calls()
	o.MaxReads = atomic.LoadInt32(&tr.MaxReads)
	openGate()
	return o, tr, eng, nil
}

// queryGoroutines counts goroutines that are inside bloomsearch query code
// (everything of the package except the two engine workers).
func queryGoroutines() (int, string) {
	buf := make([]byte, 1<<20)
	n := runtime.Stack(buf, true)
	count := 0
	sample := ""
	for _, g := range strings.Split(string(buf[:n]), "\n\n") {
		if !strings.Contains(g, "danthegoodman1/bloomsearch.") {
			continue
		}
		if strings.Contains(g, "ingestWorker") || strings.Contains(g, "flushWorker") {
			continue
		}
		if strings.Contains(g, "verifharness.queryGoroutines") {
			continue
		}
		// goroutines of the harness that merely CALL into the package (e.g. a
		// client inside Stop) are not query goroutines: require a Query frame
		if !strings.Contains(g, "bloomsearch.(*BloomSearchEngine).Query") && !strings.Contains(g, "bloomsearch.(*BloomSearchEngine).processDataBlock") && !strings.Contains(g, "bloomsearch.(*BloomSearchEngine).evaluateBlockFilters") && !strings.Contains(g, "bloomsearch.(*fileHandlePool)") && !strings.Contains(g, "bloomsearch.(*Results)") {
			continue
		}
		count++
		if sample == "" {
			sample = g
		}
	}
	return count, sample
}

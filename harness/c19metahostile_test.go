package harness

// C19, "metahostile" phase — hostile framing fields in metadata that is HELD BY
// THE METASTORE, for one file among several healthy ones. The bytes in the
// DataStore are the valid files; the MetaStore hands the engine metadata whose
// region / row-data / filter extents are arbitrary for file B. Queries with and
// without bloom conditions on a budget of 1-2 workers (so the worker that
// evaluated a healthy file goes on to the hostile one): no panic, only rows
// that were written, and the exact answer or a reported error.

import (
	"context"
	"fmt"

	bs "github.com/danthegoodman1/bloomsearch"
	"pgregory.net/rapid"
)

type c19MetaHostileCase struct {
	Comp    string    `json:"comp"`
	Files   int       `json:"files"`  // 2-4 healthy files
	Victim  int       `json:"victim"` // which one gets hostile metadata (mod Files)
	Rows    []int     `json:"rows"`   // rows per file
	Parts   []int     `json:"parts"`  // blocks per file
	Hostile []Hostile `json:"hostile"`
	QConc   int       `json:"qconc"`
}

func genC19MetaHostile() *rapid.Generator[c19MetaHostileCase] {
	return rapid.Custom(func(t *rapid.T) c19MetaHostileCase {
		c := c19MetaHostileCase{Comp: pick(t, "comp", []string{"snappy", "none", "zstd"}), Files: rapid.IntRange(2, 4).Draw(t, "files"), QConc: pick(t, "qconc", []int{1, 1, 2, 8})}
		c.Victim = unif(t, "victim", c.Files)
		for i := 0; i < c.Files; i++ {
			c.Rows = append(c.Rows, rapid.IntRange(1, 12).Draw(t, "rows"))
			c.Parts = append(c.Parts, pick(t, "parts", []int{1, 2, 3, 4}))
		}
		// Only a block's filter section extent is made hostile. For metadata that
		// does not come from a CRC-framed footer the property lists one defence,
		// "region planning rejects out-of-region sections"; row-data extents of
		// MetaStore-held metadata are trusted by design (the engine cannot know the
		// file's size without reading it), so they are not part of this phase.
		fields := []string{"BloomFilterOffset", "BloomFilterSize"}
		for i := rapid.IntRange(1, 2).Draw(t, "nh"); i > 0; i-- {
			c.Hostile = append(c.Hostile, Hostile{Field: pick(t, "hfield", fields), Block: unif(t, "hblock", 4), Value: pick(t, "hvalue", hostileValues)})
		}
		return c
	})
}

func runC19MetaHostile(c c19MetaHostileCase) *Violation {
	Ev.Eval(1)
	ds := NewMemDataStore(false)
	ms := bs.NewMemoryMetaStore()
	written := map[string]int{}
	total := 0
	var files []*c19File
	for i := 0; i < c.Files; i++ {
		fc := c19Case{Comp: c.Comp, Parts: c.Parts[i]}
		for j := 0; j < c.Rows[i]; j++ {
			fc.Rows = append(fc.Rows, VObj(kv("msg", VStr(fmt.Sprintf("file %d row %d", i, j))), kv("n", VInt(int64(j)))))
		}
		f, v := buildValidFile(fc, ds, ms, 1+1000*i)
		if v != nil {
			return v
		}
		files = append(files, f)
		for k, n := range f.rows {
			written[k] += n
		}
		total += len(f.order)
	}
	// replace the victim's metadata in the MetaStore with a hostile version
	victim := files[c.Victim%len(files)]
	m := victim.meta
	m.DataBlocks = append([]bs.DataBlockMetadata(nil), m.DataBlocks...)
	size := len(victim.raw)
	what := ""
	for _, h := range c.Hostile {
		bi := h.Block % len(m.DataBlocks)
		var p *int
		switch h.Field {
		case "RegionOffset":
			p = &m.BlockFilterRegionOffset
		case "RegionSize":
			p = &m.BlockFilterRegionSize
		case "RowDataOffset":
			p = &m.DataBlocks[bi].RowDataOffset
		case "RowDataSize":
			p = &m.DataBlocks[bi].RowDataSize
		case "BloomFilterOffset":
			p = &m.DataBlocks[bi].BloomFilterOffset
		case "BloomFilterSize":
			p = &m.DataBlocks[bi].BloomFilterSize
		case "Rows":
			p = &m.DataBlocks[bi].Rows
		case "UncompressedSize":
			p = &m.DataBlocks[bi].UncompressedSize
		}
		if p == nil {
			continue
		}
		nv := hostileValue(h.Value, *p, size, victim.meta.BlockFilterRegionOffset, victim.meta.BlockFilterRegionOffset+victim.meta.BlockFilterRegionSize, size-20)
		what += fmt.Sprintf("%s[block %d]: %d -> %d; ", h.Field, bi, *p, nv)
		*p = nv
	}
	ctx := context.Background()
	if err := ms.Update(ctx, []bs.WriteOperation{{FileMetadata: &m, FilePointerBytes: []byte(victim.ptr)}}, []bs.DeleteOperation{{FilePointerBytes: []byte(victim.ptr)}}); err != nil {
		infra("metastore update: %v", err)
		return nil
	}
	// make sure the hostile entry is there (Update applies deletes and writes of one pointer in some order)
	found := false
	for mf, err := range ms.GetMaybeFilesForQuery(ctx, nil) {
		if err == nil && string(mf.PointerBytes) == victim.ptr {
			found = true
		}
	}
	if !found {
		if err := ms.Update(ctx, []bs.WriteOperation{{FileMetadata: &m, FilePointerBytes: []byte(victim.ptr)}}, nil); err != nil {
			infra("metastore update: %v", err)
			return nil
		}
	}
	cfg := bs.DefaultBloomSearchEngineConfig()
	cfg.MaxQueryConcurrency = c.QConc
	eng, err := bs.NewBloomSearchEngine(cfg, ms, ds)
	if err != nil {
		return violf("engine: %v", err)
	}
	where := "MetaStore-held hostile metadata for one of " + fmt.Sprint(c.Files) + " files: " + what
	for qi, q := range c19Queries() {
		out, v := c19RunQuery(eng, q)
		if v != nil {
			return v
		}
		if v := checkRowsWritten(out, written, where); v != nil {
			return v
		}
		if out.err == nil && len(out.rows) != total {
			return violf("query %d finished with Err=nil but returned %d of the %d written rows (%s)", qi, len(out.rows), total, where)
		}
		if out.err != nil {
			Ev.Class("metahostile:query-reported-error")
		} else {
			Ev.Class("metahostile:exact-answer")
		}
	}
	Ev.NonTrivial("metahostile|" + jsonKey(c))
	if Ev.WantSample() {
		Ev.Sample(map[string]any{"metahostile": what, "files": c.Files, "qconc": c.QConc})
	}
	return nil
}

package harness

// C10 — buffered rows are flushed without an explicit Flush.
// One client ingests generated batches (many partitions, oversized rows, several
// limits crossed at once) with pauses and never calls Flush or Stop while the
// obligations are being judged. A model of the ingest buffer says when a limit
// has certainly been reached (immediate flush) and bounds the time-based flush.

import (
	"sort"
	"log/slog"
	"os"
	"context"
	"encoding/json"
	"fmt"
	"strings"
	"testing"
	"time"

	bs "github.com/danthegoodman1/bloomsearch"
	"pgregory.net/rapid"
)

type c10Row struct {
	Part int `json:"part"`
	Pad  int `json:"pad"`
}

type c10Batch struct {
	Rows    []c10Row `json:"rows"`
	PauseMs int      `json:"pause_ms"` // pause before this batch
	Empty   bool     `json:"empty,omitempty"` // an empty batch: a request that buffers nothing
	NilDone bool     `json:"nil_done,omitempty"` // fire-and-forget: no done channel (judged by visibility)
	Reject  bool     `json:"reject,omitempty"`   // a batch the engine rejects as a whole (unserializable row)
}

type c10Case struct {
	Comp      string     `json:"comp"`
	BufRows   int        `json:"bufrows"`
	BufBytes  int        `json:"bufbytes"`
	RGRows    int        `json:"rgrows"`
	RGBytes   int        `json:"rgbytes"`
	BufTimeMs int        `json:"buftime_ms"` // 0 = 1h
	Parts     int        `json:"parts"`      // 0 = no partition function
	Batches   []c10Batch `json:"batches"`
	Mode      string     `json:"mode,omitempty"`
	TrickleEmpty bool    `json:"trickle_empty,omitempty"`
	HumGapMs  int        `json:"hum_gap_ms,omitempty"`
	Skew      bool       `json:"skew,omitempty"`
}

func genC10() *rapid.Generator[c10Case] {
	return rapid.Custom(func(t *rapid.T) c10Case {
		far, farB := 1<<20, 1<<30
		c := c10Case{Comp: pick(t, "comp", []string{"snappy", "none", "zstd"}), Parts: pick(t, "parts", []int{0, 2, 5})}
		mode := pick(t, "mode", []string{"mixed", "binding", "binding", "trickle", "fireforget"})
		c.Mode = mode
		switch mode {
		case "mixed":
			c.BufRows = pick(t, "bufrows", []int{far, 2, 4, 9})
			c.BufBytes = pick(t, "bufbytes", []int{farB, 400, 1500, 6000})
			c.RGRows = pick(t, "rgrows", []int{far, 2, 3, 6})
			c.RGBytes = pick(t, "rgbytes", []int{farB, 300, 1000, 4000})
			c.BufTimeMs = pick(t, "buftime", []int{0, 0, 60, 150, 400})
		case "binding":
			// exactly one limit is within reach, so that limit alone has to fire
			c.BufRows, c.BufBytes, c.RGRows, c.RGBytes = far, farB, far, farB
			switch pick(t, "which", []string{"bufrows", "bufbytes", "bufbytes", "rgrows", "rgbytes"}) {
			case "bufrows":
				c.BufRows = pick(t, "bufrows", []int{2, 4, 9, 17})
			case "bufbytes":
				c.BufBytes = pick(t, "bufbytes", []int{400, 1500, 6000, 2500})
				if c.Parts == 0 {
					c.Parts = pick(t, "bparts", []int{0, 3, 5})
				}
			case "rgrows":
				c.RGRows = pick(t, "rgrows", []int{2, 3, 6})
			default:
				c.RGBytes = pick(t, "rgbytes", []int{300, 1000, 4000})
				// one heavy row next to several light rows of other partitions: the
				// partition that reaches the byte limit is not the one with most rows
				c.Parts = pick(t, "rgparts", []int{2, 3, 5})
				c.Skew = true
			}
		case "fireforget":
			// only the clock can flush; some batches carry no done channel and some
			// requests are rejected as a whole (they buffer nothing) before the engine
			// goes idle: the rows buffered earlier still have to become durable
			c.BufRows, c.BufBytes, c.RGRows, c.RGBytes = far, farB, far, farB
			c.BufTimeMs = pick(t, "fftime", []int{150, 300})
			nb := rapid.IntRange(1, 4).Draw(t, "ffbatches")
			for i := 0; i < nb; i++ {
				b := c10Batch{PauseMs: pick(t, "ffpause", []int{0, 0, 5, 30}), NilDone: chance(t, "nildone", 75)}
				k := rapid.IntRange(1, 3).Draw(t, "ffrows")
				for j := 0; j < k; j++ {
					b.Rows = append(b.Rows, c10Row{Part: unif(t, "part", 5), Pad: pick(t, "pad", []int{0, 40, 200})})
				}
				c.Batches = append(c.Batches, b)
				if i == nb-1 || chance(t, "ffreject", 40) {
					for r := rapid.IntRange(1, 2).Draw(t, "nreject"); r > 0; r-- {
						c.Batches = append(c.Batches, c10Batch{PauseMs: pick(t, "ffpause", []int{0, 5, 30}), Reject: true})
					}
				}
			}
			return c
		default: // trickle: only the time limit can fire, requests keep arriving inside every window
			c.BufRows, c.BufBytes, c.RGRows, c.RGBytes = far, farB, far, farB
			c.BufTimeMs = pick(t, "ttime", []int{300, 400})
			c.TrickleEmpty = chance(t, "allempty", 60)
			if chance(t, "hum", 40) {
				// a hum: requests that buffer nothing arrive every 30-80 ms (faster
				// than any internal polling period) for well over the time limit
				c.TrickleEmpty = true
				c.HumGapMs = pick(t, "humgap", []int{30, 50, 80})
			}
		}
		n := rapid.IntRange(1, 7).Draw(t, "nbatches")
		if mode == "binding" {
			n = rapid.IntRange(2, 10).Draw(t, "nbatchesb")
		}
		if mode == "trickle" {
			n = rapid.IntRange(13, 18).Draw(t, "nbatchest")
			if c.HumGapMs > 0 {
				n = 1 + (c.BufTimeMs+2200)/c.HumGapMs
			}
		}
		for i := 0; i < n; i++ {
			b := c10Batch{PauseMs: pick(t, "pause", []int{0, 0, 5, 30, 120})}
			k := rapid.IntRange(1, 5).Draw(t, "nrows")
			pads := []int{0, 0, 40, 200, 900, 3000}
			if mode == "trickle" {
				b.PauseMs = c.BufTimeMs * rapid.IntRange(55, 85).Draw(t, "tpause") / 100
				if c.HumGapMs > 0 {
					b.PauseMs = c.HumGapMs
				}
				if i == 0 {
					b.PauseMs = 0
				}
				k = rapid.IntRange(1, 2).Draw(t, "tnrows")
				pads = []int{0, 40}
				// followers: mostly requests that buffer nothing (empty batches), so
				// only the clock can flush the first batch
				b.Empty = i > 0 && (c.TrickleEmpty || chance(t, "empty", 40))
			}
			if mode == "binding" {
				pads = []int{0, 40, 200, 200, 600}
			}
			if c.Skew {
				k = rapid.IntRange(2, 6).Draw(t, "nrowsskew")
				pads = []int{0, 0, 0, 600, 900, 40}
			}
			for j := 0; j < k; j++ {
				b.Rows = append(b.Rows, c10Row{Part: unif(t, "part", 5), Pad: pick(t, "pad", pads)})
			}
			c.Batches = append(c.Batches, b)
		}
		return c
	})
}

type c10Model struct {
	rows, bytes int
	partRows    map[string]int
	partBytes   map[string]int
	batches     []*WBatch
	contrib     []c10Contrib // per batch, same order as batches
	multiPart   bool
}

// c10Contrib is what one batch adds to the buffer (bytes = marshaled length
// without length prefixes).
type c10Contrib struct {
	rows, bytes int
	partRows    map[string]int
	partBytes   map[string]int
}

func (m *c10Model) add(b *WBatch, ct c10Contrib) {
	m.batches = append(m.batches, b)
	m.contrib = append(m.contrib, ct)
	m.rows += ct.rows
	m.bytes += ct.bytes
	for p, n := range ct.partRows {
		m.partRows[p] += n
	}
	for p, n := range ct.partBytes {
		m.partBytes[p] += n
	}
	if len(ct.partRows) >= 2 {
		m.multiPart = true
	}
}

// trigger says which limit the modelled buffer has certainly reached ("" = none).
func (m *c10Model) trigger(c c10Case) string {
	if m.rows >= c.BufRows {
		return fmt.Sprintf("buffered rows %d >= MaxBufferedRows %d", m.rows, c.BufRows)
	}
	if m.bytes >= c.BufBytes {
		return fmt.Sprintf("buffered bytes %d >= MaxBufferedBytes %d", m.bytes, c.BufBytes)
	}
	ps := make([]string, 0, len(m.partRows))
	for p := range m.partRows {
		ps = append(ps, p)
	}
	sort.Strings(ps)
	for _, p := range ps {
		if n := m.partRows[p]; n >= c.RGRows {
			return fmt.Sprintf("partition %q rows %d >= MaxRowGroupRows %d", p, n, c.RGRows)
		}
		if m.partBytes[p] >= c.RGBytes {
			return fmt.Sprintf("partition %q bytes %d >= MaxRowGroupBytes %d", p, m.partBytes[p], c.RGBytes)
		}
	}
	return ""
}

func newC10Model() *c10Model {
	return &c10Model{partRows: map[string]int{}, partBytes: map[string]int{}}
}

func runC10Once(c c10Case) (*Violation, bool, bool) {
	cfg := bs.DefaultBloomSearchEngineConfig()
	cfg.RowDataCompression = bs.CompressionType(c.Comp)
	cfg.MaxBufferedRows, cfg.MaxBufferedBytes = c.BufRows, c.BufBytes
	cfg.MaxRowGroupRows, cfg.MaxRowGroupBytes = c.RGRows, c.RGBytes
	cfg.MaxBufferedTime = time.Hour
	if c.BufTimeMs > 0 {
		cfg.MaxBufferedTime = time.Duration(c.BufTimeMs) * time.Millisecond
	}
	partOf := func(r c10Row) string {
		if c.Parts == 0 {
			return ""
		}
		return fmt.Sprintf("p%d", r.Part%c.Parts)
	}
	if c.Parts > 0 {
		cfg.PartitionFunc = func(row map[string]any) string { s, _ := row["p"].(string); return s }
	}
	ds := NewMemDataStore(false)
	ms := bs.NewMemoryMetaStore()
	if os.Getenv("VERIF_DEBUG") != "" {
		cfg.Logger = slog.New(slog.NewTextHandler(os.Stderr, &slog.HandlerOptions{Level: slog.LevelDebug}))
	}
	eng, err := bs.NewBloomSearchEngine(cfg, ms, ds)
	if err != nil {
		return violf("config rejected: %v", err), false, false
	}
	eng.Start()
	bg := context.Background()
	var book *AckBook
	defer func() {
		sctx, cancel := context.WithTimeout(bg, 20*time.Second)
		eng.Stop(sctx) // receivers stay alive until the engine has delivered its last answers
		cancel()
		book.StopReceivers()
	}()
	// every done channel is unbuffered with a live receiver goroutine that stamps
	// the wall-clock time of the receive, so "answered within" is measured on the
	// answer itself, not on when the harness next polls
	book = NewAckBook(func() int64 { return time.Now().UnixNano() })
	const allowance = 1500 * time.Millisecond
	timeBound := time.Duration(c.BufTimeMs)*time.Millisecond + 100*time.Millisecond + allowance

	if c.Mode == "fireforget" {
		want := map[int]bool{}
		ffid := 100000
		var last time.Time
		for _, bt := range c.Batches {
			time.Sleep(time.Duration(bt.PauseMs) * time.Millisecond)
			if bt.Reject {
				rb := book.NewBatch("bad", "unbuf", 2, 1)
				if err := eng.IngestRows(bg, rb.Rows, rb.Ch); err != nil {
					return violf("IngestRows(rejected batch): %v", err), false, false
				}
				continue
			}
			ck := "unbuf"
			if bt.NilDone {
				ck = "nil"
			}
			b := book.NewBatch("good", ck, 0, 1)
			for _, r := range bt.Rows {
				ffid++
				row := map[string]any{"id": ffid, "p": partOf(r)}
				if r.Pad > 0 {
					row["pad"] = strings.Repeat("x", r.Pad)
				}
				b.Rows = append(b.Rows, row)
				want[ffid] = true
			}
			if err := eng.IngestRows(bg, b.Rows, b.Ch); err != nil {
				return violf("IngestRows: %v", err), false, false
			}
			last = time.Now()
		}
		// idle now; no Flush, no Stop: every accepted row has to become visible
		deadline := last.Add(timeBound)
		for {
			late := time.Now().After(deadline)
			vis, err := visibleIDs(eng)
			if err != nil {
				return violf("match-all query: %v", err), false, false
			}
			missing := []int{}
			for id := range want {
				if vis[id] == 0 {
					missing = append(missing, id)
				}
			}
			if len(missing) == 0 {
				return nil, false, true
			}
			if late {
				sort.Ints(missing)
				return violf("rows %v of accepted batches (fire-and-forget: %v) are still not stored %v after the last accepted batch: MaxBufferedTime %d ms + 100 ms tick + %v allowance exceeded, no Flush/Stop called; the script has rejected batches between and after them", missing, c.Batches[0].NilDone, time.Since(last).Round(time.Millisecond), c.BufTimeMs, allowance), true, false
			}
			time.Sleep(40 * time.Millisecond)
		}
	}
	m := newC10Model()
	id := 0
	nonTimeMulti, timeMulti := false, false
	staleResync := false
	type pend struct {
		b        *WBatch
		accepted time.Time
	}
	var pending []pend
	answered := func(b *WBatch) bool {
		book.Collect()
		return len(b.values()) > 0
	}
	waitAll := func(bsx []*WBatch, d time.Duration) *WBatch {
		deadline := time.Now().Add(d)
		for {
			var missing *WBatch
			for _, b := range bsx {
				if !answered(b) {
					missing = b
					break
				}
			}
			if missing == nil {
				return nil
			}
			if time.Now().After(deadline) {
				return missing
			}
			time.Sleep(500 * time.Microsecond)
		}
	}
	for bi, bt := range c.Batches {
		time.Sleep(time.Duration(bt.PauseMs) * time.Millisecond)
		// a time-based flush may have happened during the pause
		if len(m.batches) > 0 && answered(m.batches[0]) {
			if len(m.batches) >= 2 && c.BufTimeMs > 0 {
				timeMulti = true
			}
			m = newC10Model()
		}
		if bt.Empty {
			eb := book.NewBatch("empty", "unbuf", 0, 1)
			if err := eng.IngestRows(bg, eb.Rows, eb.Ch); err != nil {
				return violf("IngestRows(empty): %v", err), false, false
			}
			continue
		}
		b := book.NewBatch("good", "unbuf", 0, 1)
		ct := c10Contrib{partRows: map[string]int{}, partBytes: map[string]int{}}
		for _, r := range bt.Rows {
			id++
			row := map[string]any{"id": id, "p": partOf(r)}
			if r.Pad > 0 {
				row["pad"] = strings.Repeat("x", r.Pad)
			}
			b.Rows = append(b.Rows, row)
			jb, _ := json.Marshal(row)
			p := partOf(r)
			ct.rows++
			ct.bytes += len(jb)
			ct.partRows[p]++
			ct.partBytes[p] += len(jb)
		}
		if err := eng.IngestRows(bg, b.Rows, b.Ch); err != nil {
			return violf("IngestRows: %v", err), false, false
		}
		b.Accepted = true
		m.add(b, ct)
		pending = append(pending, pend{b, time.Now()})
		// has a limit certainly been reached? (byte obligations use the marshaled
		// length WITHOUT the 4-byte prefix, so any reasonable accounting agrees)
		trigger := m.trigger(c)
		if trigger != "" {
			if missing := waitAll(m.batches, allowance); missing != nil {
				// The model may be stale: the engine may have flushed earlier batches
				// (its own byte accounting includes length prefixes, and a time-based
				// flush can land between two harness steps) without the harness having
				// seen the answers yet. A flush takes everything buffered, so the
				// batches that are STILL unanswered are certainly all in the engine's
				// current buffer: the obligation is re-derived from them alone.
				sub := newC10Model()
				for i, mb := range m.batches {
					if !answered(mb) {
						sub.add(mb, m.contrib[i])
					}
				}
				if t2 := sub.trigger(c); t2 != "" {
					return violf("after batch %d: %s (counting only the %d batches that are still unanswered), but batch #%d was not answered within %v without Flush/Stop (MaxBufferedTime %v, compression %s)", bi, t2, len(sub.batches), missing.N, allowance, cfg.MaxBufferedTime, c.Comp), true, false
				}
				staleResync = true
				m = sub
				continue
			}
			if m.multiPart {
				nonTimeMulti = true
			}
			m = newC10Model()
			continue
		}
		// not certainly triggered: the engine may still have flushed (its byte
		// accounting includes length prefixes); give it a moment and resync
		time.Sleep(3 * time.Millisecond)
		if answered(b) {
			m = newC10Model()
		}
	}
	// quiet now: whatever is still buffered must be flushed by time
	if c.BufTimeMs > 0 {
		for _, p := range pending {
			left := time.Until(p.accepted.Add(timeBound))
			if left < 0 {
				left = 0
			}
			if missing := waitAll([]*WBatch{p.b}, left); missing != nil {
				return violf("batch #%d was accepted %v ago and still has no answer: MaxBufferedTime %d ms + 100 ms tick + %v allowance exceeded, no Flush/Stop called", p.b.N, time.Since(p.accepted).Round(time.Millisecond), c.BufTimeMs, allowance), true, false
			}
			// answered — but when? (requests that keep arriving must not push an
			// earlier batch's answer out: the bound runs from ITS acceptance)
			if vals := p.b.values(); len(vals) > 0 {
				took := time.Unix(0, vals[0].T).Sub(p.accepted)
				if took > timeBound {
					return violf("batch #%d was answered %v after its acceptance: more than MaxBufferedTime %d ms + 100 ms tick + %v allowance, no Flush/Stop called (later requests kept arriving: %d batches in the script)", p.b.N, took.Round(time.Millisecond), c.BufTimeMs, allowance, len(c.Batches)), true, false
				}
			}
		}
		if len(m.batches) >= 2 {
			timeMulti = true
		}
	}
	if staleResync {
		Ev.Class("model-was-stale(resynced-from-unanswered-batches)")
	}
	return nil, false, nonTimeMulti || timeMulti
}

func runC10(c c10Case) *Violation {
	Ev.Eval(1)
	v, timing, nt := runC10Once(c)
	if v != nil && timing {
		for i := 0; i < 2; i++ {
			if v2, _, _ := runC10Once(c); v2 == nil {
				Ev.Class("timing-verdict-not-reproduced(discarded)")
				return nil
			}
		}
	}
	if v != nil {
		return v
	}
	if c.BufTimeMs > 0 {
		Ev.Class("time-trigger-configured")
	}
	Ev.Class("mode=" + c.Mode)
	if nt {
		Ev.NonTrivial(jsonKey(c))
		if Ev.WantSample() {
			Ev.Sample(c)
		}
	}
	return nil
}

func TestC10(t *testing.T) {
	Ev.Rule = "case = limit settings (MaxBufferedRows/Bytes, MaxRowGroupRows/Bytes each either out of reach or small; MaxBufferedTime 1h or 60-400 ms; none/snappy/zstd; 0/2/5 partitions) x 1-7 batches of 1-5 rows (rows of 20 B to 3 KB spread over partitions) with 0-120 ms pauses; generator modes: mixed limits, exactly one binding limit (the others out of reach, 2-10 batches), and a trickle (only MaxBufferedTime 300-400 ms can fire; 13-18 small or empty batches arriving every 0.55-0.85 of the window, or a hum of empty requests every 30-80 ms for longer than the limit plus the allowance), and fire-and-forget (only MaxBufferedTime 150-300 ms can fire; 1-4 batches, 75% of them without a done channel, with 1-2 wholly rejected batches (unserializable row) after the last and between them; then idle: every accepted row must be visible to a match-all query on the same engine within the same time bound); done channels are unbuffered with live receivers that stamp the wall-clock time of the answer; responsive in-memory stores; Flush and Stop are not called while obligations are open. A model of the buffer (rows, marshaled bytes without prefixes, per-partition rows/bytes; reset whenever an ack shows a flush happened) says when a limit is certainly reached: every buffered batch must then be answered within 1.5 s; with MaxBufferedTime configured every batch must be answered within MaxBufferedTime + 100 ms tick + 1.5 s of ITS OWN acceptance (measured on the answer's receive time). Timing verdicts need two further reproductions. Non-trivial: a non-time trigger fired on a buffer holding a multi-partition batch, or a time flush covered >=2 batches; distinct by case."
	Ev.Assumptions = []string{"'immediately' is judged with a 1.5 s allowance", "byte obligations only when the marshaled bytes without length prefixes already reach the limit"}
	runChecks(t, "limits", 100, 2500, genC10(), runC10)
}

package harness

// C19, "transplant" phase — corruption that every byte-level integrity check of
// the compression codec accepts: a block's row data is replaced by another
// complete, valid compressed stream of the same compressed and uncompressed
// size, taken from a file written to a DIFFERENT store (rows that were never
// written to the store under test). Only the file format's own row-data hash
// can tell. Victim and donor rows are byte-wise isomorphic (one letter
// substituted everywhere), which makes LZ-style codecs produce equal sizes.

import (
	"bytes"
	"context"
	"fmt"
	"os"
	"path/filepath"
	"strings"
	"time"

	bs "github.com/danthegoodman1/bloomsearch"
	"pgregory.net/rapid"
)

type c19TransplantCase struct {
	Comp   string `json:"comp"`
	Rows   int    `json:"rows"`
	Parts  int    `json:"parts"`
	Words  int    `json:"words"`  // words per row value
	Blocks []int  `json:"blocks"` // which blocks receive donor data (mod number of blocks)
	Mode   string `json:"mode"`   // metastore, fs, merge
}

func genC19Transplant() *rapid.Generator[c19TransplantCase] {
	return rapid.Custom(func(t *rapid.T) c19TransplantCase {
		c := c19TransplantCase{Comp: pick(t, "comp", []string{"snappy", "zstd", "snappy", "none"}), Rows: rapid.IntRange(1, 40).Draw(t, "rows"),
			Parts: pick(t, "parts", []int{1, 2, 3}), Words: rapid.IntRange(1, 12).Draw(t, "words"), Mode: pick(t, "mode", []string{"metastore", "metastore", "fs", "merge"})}
		for i := rapid.IntRange(1, 3).Draw(t, "nblocks"); i > 0; i-- {
			c.Blocks = append(c.Blocks, unif(t, "block", 3))
		}
		return c
	})
}

// buildIsoFile writes rows {"id":i,"k":"<L><L><L>-NN ..."} with letter L.
func buildIsoFile(c c19TransplantCase, letter byte) (*MemDataStore, *bs.MemoryMetaStore, string, []byte, bs.FileMetadata, []string, *Violation) {
	ds := NewMemDataStore(false)
	ms := bs.NewMemoryMetaStore()
	cfg := bs.DefaultBloomSearchEngineConfig()
	cfg.MaxBufferedTime = time.Hour
	cfg.RowDataCompression = bs.CompressionType(c.Comp)
	if c.Parts > 1 {
		np := c.Parts
		cfg.PartitionFunc = func(row map[string]any) string {
			id, _ := rowID(row)
			return fmt.Sprintf("p%d", id%np)
		}
	}
	eng, err := bs.NewBloomSearchEngine(cfg, ms, ds)
	if err != nil {
		return nil, nil, "", nil, bs.FileMetadata{}, nil, violf("config rejected: %v", err)
	}
	eng.Start()
	ctx := context.Background()
	defer func() {
		sctx, cancel := context.WithTimeout(ctx, 30*time.Second)
		eng.Stop(sctx)
		cancel()
	}()
	var batch []map[string]any
	var keys []string
	w := strings.Repeat(string(letter), 3)
	for i := 0; i < c.Rows; i++ {
		var words []string
		for j := 0; j < c.Words; j++ {
			words = append(words, fmt.Sprintf("%s-%02d-%d", w, i, j))
		}
		k := strings.Join(words, " ")
		batch = append(batch, map[string]any{"id": i + 1, "k": k, "common": "zz"})
		keys = append(keys, k)
	}
	done := make(chan error, 1)
	if err := eng.IngestRows(ctx, batch, done); err != nil {
		return nil, nil, "", nil, bs.FileMetadata{}, nil, violf("ingest: %v", err)
	}
	if err := eng.Flush(ctx); err != nil {
		return nil, nil, "", nil, bs.FileMetadata{}, nil, violf("flush: %v", err)
	}
	if err := <-done; err != nil {
		return nil, nil, "", nil, bs.FileMetadata{}, nil, violf("ack: %v", err)
	}
	for mf, err := range ms.GetMaybeFilesForQuery(ctx, nil) {
		if err != nil {
			continue
		}
		raw, _ := ds.Get(string(mf.PointerBytes))
		return ds, ms, string(mf.PointerBytes), raw, mf.Metadata, keys, nil
	}
	return nil, nil, "", nil, bs.FileMetadata{}, nil, violf("flush produced no file")
}

func runC19Transplant(c c19TransplantCase) *Violation {
	Ev.Eval(1)
	vds, vms, vptr, vraw, vmeta, vkeys, v := buildIsoFile(c, 'a')
	if v != nil {
		return v
	}
	_, _, _, draw, dmeta, _, v := buildIsoFile(c, 'q')
	if v != nil {
		return v
	}
	// pair blocks by partition id
	dby := map[string]bs.DataBlockMetadata{}
	for _, b := range dmeta.DataBlocks {
		dby[b.PartitionID] = b
	}
	corrupt := append([]byte(nil), vraw...)
	transplanted := 0
	for _, bi := range c.Blocks {
		vb := vmeta.DataBlocks[bi%len(vmeta.DataBlocks)]
		db, ok := dby[vb.PartitionID]
		if !ok || db.RowDataSize != vb.RowDataSize || db.UncompressedSize != vb.UncompressedSize || db.Rows != vb.Rows {
			continue
		}
		src := draw[db.RowDataOffset : db.RowDataOffset+db.RowDataSize]
		dst := corrupt[vb.RowDataOffset : vb.RowDataOffset+vb.RowDataSize]
		if bytes.Equal(src, dst) {
			continue
		}
		copy(dst, src)
		transplanted++
	}
	if transplanted == 0 {
		Ev.Class("transplant:sizes-differ(skipped)")
		return nil
	}
	Ev.Class("transplant:comp=" + c.Comp)
	what := fmt.Sprintf("row data of %d block(s) replaced by a valid %s stream of identical compressed and uncompressed size written to another store", transplanted, c.Comp)
	wantKeys := map[string]bool{}
	for _, k := range vkeys {
		wantKeys[k] = true
	}
	judge := func(out c19QueryOut, where string, total int, exact bool) *Violation {
		for _, r := range out.rows {
			k, _ := r["k"].(string)
			if !wantKeys[k] {
				return violf("query returned a row that was never written to this store: %s (%s; %s; query Err=%v)", shortJSON(r, 300), what, where, out.err)
			}
		}
		if exact && out.err == nil && len(out.rows) != total {
			return violf("query finished with Err=nil but returned %d of the %d written rows (%s; %s)", len(out.rows), total, what, where)
		}
		return nil
	}
	switch c.Mode {
	case "metastore":
		vds.Put(vptr, corrupt)
		eng, err := bs.NewBloomSearchEngine(bs.DefaultBloomSearchEngineConfig(), vms, vds)
		if err != nil {
			return violf("engine: %v", err)
		}
		for _, q := range c19Queries() {
			out, v := c19RunQuery(eng, q)
			if v != nil {
				return v
			}
			if v := judge(out, "metadata held by the MetaStore", len(vkeys), true); v != nil {
				return v
			}
		}
	case "fs":
		dir, err := os.MkdirTemp("", "verif-c19t-")
		if err != nil {
			infra("tempdir: %v", err)
			return nil
		}
		defer os.RemoveAll(dir)
		if err := os.WriteFile(filepath.Join(dir, "bloom-1.dat"), corrupt, 0o600); err != nil {
			infra("write: %v", err)
			return nil
		}
		fs := bs.NewFileSystemDataStore(dir)
		eng, err := bs.NewBloomSearchEngine(bs.DefaultBloomSearchEngineConfig(), fs, fs)
		if err != nil {
			return violf("engine: %v", err)
		}
		for _, q := range c19Queries() {
			out, v := c19RunQuery(eng, q)
			if v != nil {
				return v
			}
			if v := judge(out, "filesystem store, metadata from the file", len(vkeys), false); v != nil {
				return v
			}
		}
	case "merge":
		// a second healthy file in the victim store, then Merge over the corrupted source
		c2 := c
		ds2, _, _, raw2, meta2, keys2, v := buildIsoFile(c2, 'b')
		if v != nil {
			return v
		}
		_ = ds2
		p2 := vds.NewPointer()
		vds.Put(p2, raw2)
		if err := vms.Update(context.Background(), []bs.WriteOperation{{FileMetadata: &meta2, FilePointerBytes: []byte(p2)}}, nil); err != nil {
			infra("metastore update: %v", err)
			return nil
		}
		for _, k := range keys2 {
			wantKeys[k] = true
		}
		vds.Put(vptr, corrupt)
		cfg := bs.DefaultBloomSearchEngineConfig()
		cfg.RowDataCompression = bs.CompressionType(c.Comp)
		eng, err := bs.NewBloomSearchEngine(cfg, vms, vds)
		if err != nil {
			return violf("engine: %v", err)
		}
		_, merr := eng.Merge(context.Background())
		for _, q := range c19Queries() {
			out, v := c19RunQuery(eng, q)
			if v != nil {
				return v
			}
			if v := judge(out, fmt.Sprintf("after Merge (err=%v) over the corrupted source", merr), len(vkeys)+len(keys2), true); v != nil {
				return v
			}
		}
	}
	Ev.Class("transplant:mode=" + c.Mode)
	Ev.NonTrivial("transplant|" + jsonKey(c))
	if Ev.WantSample() {
		Ev.Sample(map[string]any{"transplant_case": c, "blocks_replaced": transplanted})
	}
	return nil
}

var _ = rapid.Bool

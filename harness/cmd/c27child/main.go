// c27child runs one C27 scenario in a process whose stdout and stderr belong
// to the parent test: no testing framework output can exist here, so every
// byte on either stream was written by the library (or its dependencies).
package main

import (
	"os"

	harness "verifharness"
)

func main() {
	os.Exit(harness.C27ChildMain(os.Args[1:]))
}

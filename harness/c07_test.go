package harness

// C07 — acknowledgements respect acceptance order (Flush is a durability
// barrier). One ingester issues batches in a known acceptance order while
// Flush callers run on other goroutines against slow stores, so flushes are
// queued / in flight when acks and Flush returns are observed.

import (
	"context"
	"fmt"
	"sync"
	"sync/atomic"
	"testing"
	"time"

	bs "github.com/danthegoodman1/bloomsearch"
	"pgregory.net/rapid"
)

type c07Op struct {
	Kind    string `json:"kind"` // good empty bad
	Rows    int    `json:"rows"`
	Late    int    `json:"late_ms,omitempty"` // >0: unbuffered done channel whose receiver arrives this late
	PauseUs int    `json:"pause_us,omitempty"`
}

type c07Case struct {
	Cfg      EngCfg      `json:"cfg"`
	Store    StoreScript `json:"store"`
	Batches  []c07Op     `json:"batches"`
	FlushAt  [][]int     `json:"flush_at"` // per flusher goroutine: pauses (us) between Flush calls
	Procs    int         `json:"procs,omitempty"`
	// EndWithStop: the run ends with Stop instead of a final Flush, while
	// earlier flushes may still be queued or in flight and the last batches are
	// still buffered: the shutdown flush is part of the same acceptance order
	EndWithStop bool `json:"end_with_stop,omitempty"`
}

func genC07() *rapid.Generator[c07Case] {
	return rapid.Custom(func(t *rapid.T) c07Case {
		c := c07Case{}
		c.Cfg = EngCfg{Tokenizer: "default", Compression: "none", FPR: 0.01,
			RGRows: pick(t, "rgrows", []int{10000, 2, 3}), RGBytes: pick(t, "rgbytes", []int{10 << 20, 250}),
			BufRows: pick(t, "bufrows", []int{1, 2, 3, 1000}), BufBytes: pick(t, "bufbytes", []int{1 << 20, 200}),
			BufTimeMs: pick(t, "buftime", []int{0, 20}), IngestBuf: pick(t, "ingestbuf", []int{1000, 1, 4}),
			QueryConc: 4, Partition: pick(t, "part", []string{"none", "field"}), MaxFileSize: 10 << 30, MaxMerge: 10}
		c.Store.LatencyUs = map[string]int{}
		for _, k := range []string{"CreateFile", "Write", "Close", "Update"} {
			if chance(t, "lat_"+k, 70) {
				c.Store.LatencyUs[k] = pick(t, "latus_"+k, []int{300, 1000, 3000})
			}
		}
		if chance(t, "faulted", 35) {
			// a flush that fails after (or at) CreateFile, followed by a slow cleanup:
			// the failed request's waiters are still owed their error answer while the
			// next requests queue up behind it
			nflt := rapid.IntRange(1, 2).Draw(t, "nfaults")
			for i := 0; i < nflt; i++ {
				c.Store.FailKind = append(c.Store.FailKind, pick(t, "failkind", []string{"Write", "Write", "Close", "Close", "CreateFile", "Update"}))
				c.Store.FailN = append(c.Store.FailN, rapid.IntRange(0, 4).Draw(t, "failn"))
			}
			for _, k := range []string{"Abort", "Tombstone"} {
				if chance(t, "lat_"+k, 75) {
					c.Store.LatencyUs[k] = pick(t, "cleanus_"+k, []int{1000, 5000, 12000})
				}
			}
		}
		n := rapid.IntRange(2, 9).Draw(t, "nbatches")
		late := false
		for i := 0; i < n; i++ {
			op := c07Op{Kind: pick(t, "kind", []string{"good", "good", "good", "good", "empty", "bad"}), Rows: rapid.IntRange(1, 3).Draw(t, "rows"), PauseUs: pick(t, "pause", []int{0, 0, 200, 1500})}
			if !late && op.Kind == "good" && chance(t, "late", 12) {
				late = true
				op.Late = pick(t, "latems", []int{150, 220})
			}
			c.Batches = append(c.Batches, op)
		}
		nf := rapid.IntRange(0, 2).Draw(t, "nflushers")
		for i := 0; i < nf; i++ {
			k := rapid.IntRange(1, 3).Draw(t, "nflush")
			var ps []int
			for j := 0; j < k; j++ {
				ps = append(ps, pick(t, "fpause", []int{0, 300, 1000, 4000}))
			}
			c.FlushAt = append(c.FlushAt, ps)
		}
		c.Procs = pick(t, "procs", []int{0, 2, 4})
		c.EndWithStop = chance(t, "endstop", 40)
		return c
	})
}

func runC07(c c07Case) *Violation {
	Ev.Eval(1)
	if c.Procs > 0 {
		prev := setProcs(c.Procs)
		defer setProcs(prev)
	}
	ds := NewMemDataStore(false)
	ms := bs.NewMemoryMetaStore()
	tr := NewTrace(ds, ms)
	ctl := NewStoreCtl(c.Store)
	tr.Before = ctl.Hook
	eng, err := bs.NewBloomSearchEngine(c.Cfg.Build(), tr, tr)
	if err != nil {
		return violf("config rejected: %v", err)
	}
	eng.Start()
	book := NewAckBook(tr.tick)
	defer book.StopReceivers()
	bg := context.Background()
	defer func() {
		sctx, cancel := context.WithTimeout(bg, 20*time.Second)
		eng.Stop(sctx)
		cancel()
	}()

	var mu sync.Mutex
	var viol *Violation
	setViol := func(v *Violation) {
		mu.Lock()
		if viol == nil {
			viol = v
		}
		mu.Unlock()
	}
	var order []*WBatch // acceptance order
	var ingestDone int32
	inFlightSeen := int32(0)

	answered := func(b *WBatch) (AckObs, bool) {
		// a value already received, or receivable right now. The observer and the
		// Flush callers all come through here: taking the value off the channel and
		// recording it is one step under the batch's lock, otherwise a caller can
		// find the channel already emptied and the record not yet written.
		b.mu.Lock()
		defer b.mu.Unlock()
		if len(b.Recv) > 0 {
			return b.Recv[0], true
		}
		if b.ChanKind == "buf" {
			select {
			case err := <-b.Ch:
				b.Recv = append(b.Recv, AckObs{err, tr.tick()})
				return b.Recv[0], true
			default:
			}
		}
		return AckObs{}, false
	}
	answeredWithGrace := func(b *WBatch) (AckObs, bool) {
		if a, ok := answered(b); ok {
			return a, ok
		}
		if b.ChanKind == "unbuf" && atomic.LoadInt32(&b.recvActive) == 0 {
			// the (late) receiver has not started to receive yet: nothing can have been
			// delivered on an unbuffered channel, the batch is certainly unanswered
			return AckObs{}, false
		}
		if b.ChanKind == "unbuf" {
			// the receiver goroutine appends after its receive completed
			// (generous: it is only ever waited out when a violation is about to be reported)
			deadline := time.Now().Add(2 * time.Second)
			for time.Now().Before(deadline) {
				time.Sleep(time.Millisecond)
				if a, ok := answered(b); ok {
					return a, ok
				}
			}
		}
		return AckObs{}, false
	}
	visible := func(upTo []*WBatch, what string) *Violation {
		var want []int
		for _, b := range upTo {
			if vs := b.values(); len(vs) > 0 && vs[0].Err == nil {
				want = append(want, b.IDs...)
			}
		}
		if len(want) == 0 {
			return nil
		}
		vis, err := visibleIDs(eng)
		if err != nil {
			return violf("%s: visibility query failed: %v", what, err)
		}
		for _, id := range want {
			if vis[id] != 1 {
				return violf("%s: row id %d of an earlier batch acknowledged with nil is visible %d times to a query issued now", what, id, vis[id])
			}
		}
		return nil
	}
	storeBusy := func() bool {
		// a flush is in flight: some CreateFile started whose Update has not finished
		creates, updates := 0, 0
		for _, cr := range tr.Calls() {
			switch cr.Kind {
			case "CreateFile":
				creates++
			case "Update":
				if cr.T1 >= 0 {
					updates++
				}
			}
		}
		return creates > updates
	}

	// observer: newest first, so an ack that overtook an earlier one is seen first
	obsDone := make(chan struct{})
	go func() {
		defer close(obsDone)
		for {
			mu.Lock()
			snap := append([]*WBatch(nil), order...)
			stop := viol != nil
			mu.Unlock()
			if stop {
				return
			}
			for k := len(snap) - 1; k >= 0; k-- {
				b := snap[k]
				if len(b.values()) > 0 {
					continue
				}
				a, ok := answered(b)
				if !ok || a.Err != nil || b.Kind == "empty" {
					continue
				}
				busy := storeBusy()
				// ack_k = nil observed: every earlier non-empty batch must already be answered
				for j := 0; j < k; j++ {
					e := snap[j]
					if e.Kind == "empty" || e.ChanKind == "nil" {
						continue
					}
					if _, ok := answeredWithGrace(e); !ok {
						setViol(violf("batch #%d was acknowledged with nil while the earlier accepted non-empty batch #%d (%s, %s channel, late receiver %v) has not been answered", b.N, e.N, e.Kind, e.ChanKind, e.ChanKind == "unbuf"))
						return
					}
				}
				if v := visible(snap[:k+1], fmt.Sprintf("on observing the nil ack of batch #%d", b.N)); v != nil {
					setViol(v)
					return
				}
				if busy {
					atomic.StoreInt32(&inFlightSeen, 1)
				}
			}
			if atomic.LoadInt32(&ingestDone) == 2 {
				return
			}
			time.Sleep(200 * time.Microsecond)
		}
	}()

	var wg sync.WaitGroup
	wg.Add(1)
	go func() {
		defer wg.Done()
		for _, op := range c.Batches {
			if op.PauseUs > 0 {
				time.Sleep(time.Duration(op.PauseUs) * time.Microsecond)
			}
			var b *WBatch
			if op.Late > 0 {
				b = book.NewBatch(op.Kind, "unbuf", op.Rows, 2, time.Duration(op.Late)*time.Millisecond)
			} else {
				b = book.NewBatch(op.Kind, "buf", op.Rows, 2)
			}
			if err := eng.IngestRows(bg, b.Rows, b.Ch); err != nil {
				setViol(violf("IngestRows on a running engine failed: %v", err))
				return
			}
			b.mu.Lock()
			b.Accepted = true
			b.mu.Unlock()
			mu.Lock()
			order = append(order, b)
			mu.Unlock()
		}
	}()
	for fi, pauses := range c.FlushAt {
		wg.Add(1)
		go func(fi int, pauses []int) {
			defer wg.Done()
			for _, p := range pauses {
				time.Sleep(time.Duration(p) * time.Microsecond)
				mu.Lock()
				before := append([]*WBatch(nil), order...)
				mu.Unlock()
				busy := storeBusy()
				err := eng.Flush(bg)
				if err != nil {
					continue // an error answer carries no ordering obligation
				}
				for _, e := range before {
					if e.Kind == "empty" || e.ChanKind == "nil" {
						continue
					}
					if _, ok := answeredWithGrace(e); !ok {
						setViol(violf("Flush returned nil but batch #%d (%s), accepted before Flush was called, has not been answered", e.N, e.Kind))
						return
					}
				}
				if v := visible(before, "when Flush returned nil"); v != nil {
					setViol(v)
					return
				}
				if busy {
					atomic.StoreInt32(&inFlightSeen, 1)
				}
			}
		}(fi, pauses)
	}
	wg.Wait()
	atomic.StoreInt32(&ingestDone, 1)
	if c.EndWithStop {
		// the observer keeps judging every acknowledgement while Stop drains
		sctx, cancel := context.WithTimeout(bg, 20*time.Second)
		serr := eng.Stop(sctx)
		cancel()
		if serr == nil {
			mu.Lock()
			all := append([]*WBatch(nil), order...)
			mu.Unlock()
			for _, e := range all {
				if e.ChanKind == "nil" || e.Kind == "empty" {
					continue
				}
				if _, ok := answeredWithGrace(e); !ok {
					setViol(violf("Stop returned nil but batch #%d (%s) has not been answered", e.N, e.Kind))
				}
			}
		}
		Ev.Class("ended-with-stop")
	} else if err := eng.Flush(bg); err == nil {
		// final barrier: one more Flush, then everything must be answered
		mu.Lock()
		all := append([]*WBatch(nil), order...)
		mu.Unlock()
		for _, e := range all {
			if e.ChanKind == "nil" || e.Kind == "empty" {
				continue
			}
			if _, ok := answeredWithGrace(e); !ok {
				setViol(violf("final Flush returned nil but batch #%d (%s) has not been answered", e.N, e.Kind))
			}
		}
	}
	atomic.StoreInt32(&ingestDone, 2)
	<-obsDone
	mu.Lock()
	v := viol
	mu.Unlock()
	if v != nil {
		return v
	}
	fired := ctl.FiredCount()
	if fired > 0 {
		Ev.Class("store-call-failed-during-a-flush")
		if c.Store.LatencyUs["Abort"]+c.Store.LatencyUs["Tombstone"] > 0 {
			Ev.Class("failed-flush-with-slow-cleanup")
		}
	}
	if atomic.LoadInt32(&inFlightSeen) == 1 && fired == 0 {
		Ev.Class("ack-or-flush-observed-with-flush-in-flight")
		Ev.NonTrivial(jsonKey(c))
		if Ev.WantSample() {
			Ev.Sample(c)
		}
	}
	for _, b := range c.Batches {
		if b.Late > 0 {
			Ev.Class("late-unbuffered-receiver")
		}
	}
	return nil
}

func TestC07(t *testing.T) {
	Ev.Rule = "case = one ingester issuing 2-9 batches (good / empty / unmarshalable; buffered done channels, at most one unbuffered channel whose receiver arrives 150-220 ms late) in a known acceptance order, 0-2 goroutines calling Flush 1-3 times, the run ending with a final Flush or (40%) with Stop while flushes are still queued, stores with 0.3-3 ms latency per call so flushes are queued or in flight, in 35% of cases one or two one-shot store failures (Write / Close / CreateFile / Update at ordinal 0-4) with Abort / TombstoneFile cleanup taking 1-12 ms so a failed flush still owes its error answers while later requests queue behind it, flush triggers by rows / bytes / partition limits / time and ack-only flushes, GOMAXPROCS varied. Oracle: an observer polls the done channels newest-first; on receiving nil for a non-empty batch k every earlier non-empty accepted batch must already hold/have delivered a value, and every earlier nil-acked batch (and k) must be visible to a query issued at that moment; when Flush returns nil the same holds for every batch accepted before Flush was called. Non-trivial: an ack or a Flush return was observed while a flush was in flight (CreateFile started, Update not finished); distinct by case."
	Ev.Assumptions = []string{"empty batches are acknowledged immediately by design (documented) and carry no ordering obligation; error answers are exempt by the statement", "a late unbuffered receiver is given 40 ms to record a value it has already received"}
	runChecks(t, "schedules", 200, 15000, genC07(), runC07)
}

package harness

// C21, "contended" phase — several queries share one engine with a small
// MaxQueryConcurrency, so block workers really wait for slots and handles of the
// same file are handed back while others are still in use; the queries end in
// different ways at different moments (drain, Close or cancel after k rows or t
// ms, stall then Close), reads and handle Close calls are slow, and a read may
// fail. When everything has ended: every handle closed exactly once, none used
// after close or by two goroutines at once, iterators returned, query goroutines
// gone, and the whole budget is available to a follow-up query.

import (
	"context"
	"fmt"
	"sync"
	"sync/atomic"
	"time"

	bs "github.com/danthegoodman1/bloomsearch"
	"pgregory.net/rapid"
)

type c21Query struct {
	Kind  string `json:"kind"`
	End   string `json:"end"`   // drain, close, cancel, stallclose
	After int    `json:"after"` // rows read before End
	Ms    int    `json:"ms"`    // close/cancel from another goroutine after Ms (0 = inline after the rows)
}

type c21ContCase struct {
	World          CursorWorldSpec `json:"world"`
	QConc          int             `json:"qconc"`
	LatencyUs      int             `json:"latency_us"`
	CloseLatencyUs int             `json:"close_latency_us"`
	// IterLatencyUs: the MetaStore hands out candidates this slowly (a paginated
	// store): a file is finished, and its handles are being closed, by the time
	// the next one is retained
	IterLatencyUs int `json:"iter_latency_us,omitempty"`
	Queries        []c21Query      `json:"queries"`
	Fault          *CursorFault    `json:"fault,omitempty"`
	Procs          int             `json:"procs,omitempty"`
}

func genC21Contended() *rapid.Generator[c21ContCase] {
	return rapid.Custom(func(t *rapid.T) c21ContCase {
		c := c21ContCase{
			World:          CursorWorldSpec{Files: pick(t, "files", []int{1, 2, 4}), Blocks: pick(t, "blocks", []int{3, 6}), Rows: pick(t, "rows", []int{10, 70, 200})},
			QConc:          pick(t, "qconc", []int{1, 1, 2, 3}),
			LatencyUs:      pick(t, "lat", []int{200, 1000, 3000}),
			CloseLatencyUs: pick(t, "clat", []int{0, 500, 3000}),
			Procs:          pick(t, "procs", []int{0, 1, 2, 4}),
		}
		for i := rapid.IntRange(2, 6).Draw(t, "nq"); i > 0; i-- {
			q := c21Query{Kind: pick(t, "kind", []string{"all", "token", "all", "file0"}), End: pick(t, "end", []string{"drain", "close", "cancel", "cancel", "stallclose"}),
				After: rapid.IntRange(0, 80).Draw(t, "after")}
			if chance(t, "async", 50) {
				q.Ms = rapid.IntRange(1, 25).Draw(t, "ms")
			}
			c.Queries = append(c.Queries, q)
		}
		if chance(t, "fault", 40) {
			c.Fault = &CursorFault{Kind: pick(t, "fkind", []string{"Read", "Read", "OpenFile", "Seek", "RClose"}), N: rapid.IntRange(0, 12).Draw(t, "fn")}
		}
		if chance(t, "manyfiles", 25) {
			// several multi-block files scanned one after the other by 3-4 workers
			// with a slow handle Close: while the pool is still closing one file's
			// idle handles, the workers already borrow and hand back handles of the next
			c.World = CursorWorldSpec{Files: pick(t, "mffiles", []int{4, 6}), Blocks: pick(t, "mfblocks", []int{3, 6}), Rows: pick(t, "mfrows", []int{10, 70})}
			c.QConc = pick(t, "mfqconc", []int{2, 3, 4})
			c.LatencyUs = pick(t, "mflat", []int{200, 1000})
			c.CloseLatencyUs = pick(t, "mfclat", []int{3000, 6000})
			c.IterLatencyUs = pick(t, "mfiter", []int{0, 3000, 6000, 12000})
			c.Fault = nil
			c.Queries = []c21Query{{Kind: "all", End: "drain"}}
			if chance(t, "mfsecond", 40) {
				c.Queries = append(c.Queries, c21Query{Kind: "token", End: "drain"})
			}
			return c
		}
		if chance(t, "samefile", 35) {
			// many blocks of ONE file scanned by several workers: handles of that
			// file are handed back and re-lent all the time; one read fails while
			// siblings are idle, and closing a handle is slow
			c.World = CursorWorldSpec{Files: 1, Blocks: pick(t, "sfblocks", []int{6, 12}), Rows: pick(t, "sfrows", []int{10, 70})}
			c.QConc = pick(t, "sfqconc", []int{3, 4, 8})
			c.LatencyUs = pick(t, "sflat", []int{200, 1000})
			c.CloseLatencyUs = pick(t, "sfclat", []int{3000, 1000, 8000})
			// a read in the middle of the file's scan (one read per block, plus the
			// filter region's for a bloom query): siblings are idle, others still busy
			c.Fault = &CursorFault{Kind: pick(t, "sffk", []string{"Read", "Read", "Read", "RClose"}), N: rapid.IntRange(2, c.World.Blocks-2).Draw(t, "sffn")}
			if c.Fault.Kind == "RClose" {
				// a handle whose Close reports an error (it is closed all the same):
				// the first handles the pool closes, while their siblings are idle
				c.Fault.N = unif(t, "sfcn", 3)
			}
			c.Queries = c.Queries[:1]
			c.Queries[0] = c21Query{Kind: pick(t, "sfkind", []string{"all", "token"}), End: "drain"}
			if chance(t, "sfsecond", 40) {
				c.Queries = append(c.Queries, c21Query{Kind: "all", End: "drain"})
			}
		}
		return c
	})
}

func runC21ContendedOnce(c c21ContCase) (*Violation, bool, bool) {
	if c.Procs > 0 {
		prev := setProcs(c.Procs)
		defer setProcs(prev)
	}
	w, err := getCursorWorld(c.World)
	if err != nil {
		infra("cursor world: %v", err)
		return nil, false, false
	}
	tr := NewTrace(w.ds, w.ms)
	var faultFired int32
	tr.Before = func(ci *CallInfo) error {
		switch ci.Kind {
		case "OpenFile", "Read", "Seek":
			time.Sleep(time.Duration(c.LatencyUs) * time.Microsecond)
		case "RClose":
			if c.CloseLatencyUs > 0 {
				time.Sleep(time.Duration(c.CloseLatencyUs) * time.Microsecond)
			}
		case "IterYield":
			if c.IterLatencyUs > 0 && ci.KindSeq > 0 {
				time.Sleep(time.Duration(c.IterLatencyUs) * time.Microsecond)
			}
		}
		if c.Fault != nil && ci.Kind == c.Fault.Kind && ci.KindSeq == c.Fault.N {
			atomic.StoreInt32(&faultFired, 1)
			return fmt.Errorf("contended fault: %w", errInjected)
		}
		return nil
	}
	cfg := bs.DefaultBloomSearchEngineConfig()
	cfg.MaxQueryConcurrency = c.QConc
	eng, err := bs.NewBloomSearchEngine(cfg, tr, tr)
	if err != nil {
		return violf("config rejected: %v", err), false, false
	}
	var wg sync.WaitGroup
	early := int32(0)
	for _, q := range c.Queries {
		ctx, cancel := context.WithCancel(context.Background())
		res, err := eng.Query(ctx, cursorQuery(q.Kind))
		if err != nil {
			cancel()
			return violf("query rejected: %v", err), false, false
		}
		wg.Add(1)
		go func(q c21Query, res *bs.Results, cancel context.CancelFunc) {
			defer wg.Done()
			defer cancel()
			terminate := func() {
				atomic.AddInt32(&early, 1)
				if q.End == "cancel" {
					cancel()
				} else {
					res.Close()
				}
			}
			if q.End != "drain" && q.Ms > 0 {
				go func() {
					time.Sleep(time.Duration(q.Ms) * time.Millisecond)
					terminate()
				}()
			}
			n := 0
			for res.Next() {
				n++
				if q.End != "drain" && q.Ms == 0 && n >= q.After {
					if q.End == "stallclose" {
						time.Sleep(15 * time.Millisecond) // workers park on the full row buffer
					}
					terminate()
					break
				}
			}
			for res.Next() {
			}
			res.Close()
		}(q, res, cancel)
	}
	done := make(chan struct{})
	go func() { wg.Wait(); close(done) }()
	select {
	case <-done:
	case <-time.After(30 * time.Second):
		return violf("%d concurrent queries (MaxQueryConcurrency=%d) had not all ended 30s after they were started (each is drained, closed or cancelled by its consumer)", len(c.Queries), c.QConc), true, false
	}
	if n := atomic.LoadInt32(&tr.IterOpen); n != 0 {
		return violf("after every query ended, %d MetaStore iterators had not returned", n), false, false
	}
	// the teardown of a query that ended through cancel may still be closing its
	// handles on its own goroutine: wait (bounded) for the handle accounting to settle
	deadline := time.Now().Add(3 * time.Second)
	for {
		open := 0
		for _, h := range tr.Handles() {
			if h.Closes == 0 {
				open++
			}
		}
		n, _ := queryGoroutines()
		if open == 0 && n == 0 {
			break
		}
		if time.Now().After(deadline) {
			if open > 0 {
				return violf("3s after every query had ended (Next returned false and Close returned), %d read handles opened by the queries were still not closed", open), true, false
			}
			_, sample := queryGoroutines()
			return violf("3s after every query had ended, goroutines started for the queries were still running:\n%s", sample), true, false
		}
		time.Sleep(time.Millisecond)
	}
	for _, h := range tr.Handles() {
		if h.Closes != 1 {
			return violf("read handle #%d on %s was closed %d times (want exactly once)", h.ID, h.Ptr, h.Closes), false, false
		}
		if h.UseAfter != 0 {
			return violf("read handle #%d on %s was used %d times after being closed", h.ID, h.Ptr, h.UseAfter), false, false
		}
		if h.Concurrent != 0 {
			return violf("read handle #%d on %s was used by two goroutines at once (%d overlaps)", h.ID, h.Ptr, h.Concurrent), false, false
		}
	}
	if v, timing := recheckBudget(tr, eng, c.World, c.QConc); v != nil {
		return v, timing, false
	}
	if atomic.LoadInt32(&faultFired) == 1 {
		Ev.Class("contended:fault-fired")
	}
	return nil, false, atomic.LoadInt32(&early) > 0
}

func runC21Contended(c c21ContCase) *Violation {
	Ev.Eval(1)
	v, timing, nt := runC21ContendedOnce(c)
	if v != nil && timing {
		for i := 0; i < 2; i++ {
			if v2, _, _ := runC21ContendedOnce(c); v2 == nil {
				Ev.Class("timing-verdict-not-reproduced(discarded)")
				return nil
			}
		}
	}
	if v != nil {
		v.Msg += "\ncase: " + shortJSON(c, 1200)
		return v
	}
	Ev.Class(fmt.Sprintf("contended:qconc=%d", c.QConc))
	if nt {
		Ev.NonTrivial("contended|" + jsonKey(c))
		if Ev.WantSample() {
			Ev.Sample(map[string]any{"contended_case": c})
		}
	}
	return nil
}

package harness

// Generators for Go numeric values of every kind and magnitude, numeric /
// string conditions and prefilter trees (properties C04, C01, C02, C25).

import (
	"math"

	bs "github.com/danthegoodman1/bloomsearch"
	"pgregory.net/rapid"
)

var interestingInts = []int64{
	0, 1, -1, 2, 5, 7, 10, 100, -100, 127, 128, -128, -129, 255, 256, 32767, 32768, 65535, 65536,
	math.MaxInt32, math.MaxInt32 + 1, math.MinInt32, math.MinInt32 - 1, math.MaxUint32, math.MaxUint32 + 1,
	1 << 53, 1<<53 + 1, 1<<53 - 1, -(1 << 53), -(1<<53 + 1),
	1 << 62, 1<<62 + 1, -(1 << 62),
	math.MaxInt64, math.MaxInt64 - 1, math.MaxInt64 - 2, math.MinInt64, math.MinInt64 + 1, math.MinInt64 + 2,
}

var interestingFloats = []float64{
	0, math.Copysign(0, -1), 0.5, -0.5, 1.5, -1.5, 2.5, 0.1, -0.1, 1e-7, 5e-324, -5e-324,
	float64(1 << 53), float64(1<<53) + 2, 9007199254740993, 1e15 + 0.5,
	9223372036854774784,  // largest float64 below 2^63
	9223372036854775808,  // 2^63
	9223372036854777856,  // next above 2^63
	-9223372036854775808, // -2^63
	-9223372036854777856, // next below -2^63
	-9223372036854774784,
	18446744073709551615, 1e19, -1e19, 1e21, -1e21, 1e300, -1e300, math.MaxFloat64, -math.MaxFloat64,
	math.Inf(1), math.Inf(-1), math.NaN(),
	float64(math.MaxFloat32), 16777217, 3.4e38,
}

func genInt64() *rapid.Generator[int64] {
	return rapid.OneOf(
		rapid.SampledFrom(interestingInts),
		rapid.Int64Range(-20, 20),
		rapid.Int64(),
		rapid.Custom(func(t *rapid.T) int64 {
			base := rapid.SampledFrom(interestingInts).Draw(t, "base")
			d := rapid.Int64Range(-3, 3).Draw(t, "d")
			s := base + d
			// avoid wrap: if it wrapped, return base
			if (d > 0 && s < base) || (d < 0 && s > base) {
				return base
			}
			return s
		}),
	)
}

func genFloat64() *rapid.Generator[float64] {
	return rapid.OneOf(
		rapid.SampledFrom(interestingFloats),
		rapid.Float64Range(-50, 50),
		rapid.Float64(),
		rapid.Custom(func(t *rapid.T) float64 {
			// integer-valued or half-integer floats near interesting integers
			base := float64(genInt64().Draw(t, "base"))
			frac := rapid.SampledFrom([]float64{0, 0.5, -0.5, 0.25, 1e-9, 1, -1, 1024, -1024, 2048}).Draw(t, "frac")
			return base + frac
		}),
	)
}

// genNumVal draws a numeric Val of any Go kind (including named types). NaN
// and the infinities are produced for float kinds (they are not marshalable,
// so row generators filter them; the pure C04 check keeps them).
func genNumVal() *rapid.Generator[Val] {
	return rapid.Custom(func(t *rapid.T) Val {
		fam := rapid.IntRange(0, 9).Draw(t, "fam")
		switch {
		case fam < 4:
			k := rapid.SampledFrom(signedKinds).Draw(t, "kind")
			lo, hi := signedRange(k)
			x := genInt64().Draw(t, "i")
			if x < lo {
				x = lo + (lo-x)%3 // keep close to the kind's edge
				if x > hi {
					x = lo
				}
			}
			if x > hi {
				x = hi - (x-hi)%3
				if x < lo {
					x = hi
				}
			}
			return Val{K: k, I: x}
		case fam < 7:
			k := rapid.SampledFrom(unsignedKinds).Draw(t, "kind")
			mx := unsignedMax(k)
			var u uint64
			switch rapid.IntRange(0, 3).Draw(t, "ucls") {
			case 0:
				x := genInt64().Draw(t, "i")
				if x < 0 {
					x = -(x + 1)
				}
				u = uint64(x)
			case 1:
				u = rapid.SampledFrom([]uint64{math.MaxUint64, math.MaxUint64 - 1, 1 << 63, 1<<63 + 1, 1<<63 - 1, 1<<63 + 1024}).Draw(t, "u")
			case 2:
				u = rapid.Uint64().Draw(t, "u")
			default:
				u = uint64(rapid.IntRange(0, 40).Draw(t, "u"))
			}
			if u > mx {
				u = mx - (u-mx)%3
			}
			return Val{K: k, U: u}
		default:
			k := rapid.SampledFrom(floatKinds).Draw(t, "kind")
			f := genFloat64().Draw(t, "f")
			if k == "float32" || k == "nfloat32" {
				f = float64(float32(f))
			}
			return Val{K: k, F: fstr(f)}
		}
	})
}

var numericOps = []bs.QueryOperator{
	bs.OpEqual, bs.OpNotEqual, bs.OpGreaterThan, bs.OpGreaterThanEqual, bs.OpLessThan, bs.OpLessThanEqual,
	bs.OpIn, bs.OpNotIn, bs.OpBetween, bs.OpNotBetween,
}

// operandsNear returns int64 operands around an exact value (floor, ceil, ±1,
// clamped) plus the int64 extremes, so conditions sit on the boundaries.
func operandsNear(vals []Val) []int64 {
	out := []int64{0, 1, -1, math.MaxInt64, math.MinInt64, math.MaxInt64 - 1, math.MinInt64 + 1}
	for _, v := range vals {
		lo, hi, ok := refFloorCeil(v)
		if !ok {
			continue
		}
		for _, b := range []int64{lo, hi} {
			out = append(out, b)
			if b < math.MaxInt64 {
				out = append(out, b+1)
			}
			if b > math.MinInt64 {
				out = append(out, b-1)
			}
		}
	}
	return out
}

func genNumericCondition(pool []int64) *rapid.Generator[bs.NumericCondition] {
	operand := rapid.OneOf(rapid.SampledFrom(pool), genInt64())
	return rapid.Custom(func(t *rapid.T) bs.NumericCondition {
		op := rapid.SampledFrom(numericOps).Draw(t, "op")
		if chance(t, "unk", 2) {
			op = bs.QueryOperator("LIKE")
		}
		c := bs.NumericCondition{Operator: op}
		switch op {
		case bs.OpIn, bs.OpNotIn:
			c.Values = rapid.SliceOfN(operand, 0, 4).Draw(t, "values")
			if len(pool) > 7 && chance(t, "exactset", 40) {
				// a set made of exact stored values (the entries operandsNear puts at
				// every third position after its 7 constants are the values' own
				// floor/ceil): sets that contain a block's Min and Max at once
				c.Values = nil
				for i := rapid.IntRange(1, 6).Draw(t, "nexact"); i > 0; i-- {
					c.Values = append(c.Values, pool[7+3*unif(t, "exactidx", (len(pool)-7+2)/3)])
				}
			}
			if len(c.Values) == 0 {
				c.Values = nil
			}
		case bs.OpBetween, bs.OpNotBetween:
			c.Min = operand.Draw(t, "min")
			c.Max = operand.Draw(t, "max")
			// mostly ordered, sometimes inverted
			if c.Min > c.Max && rapid.IntRange(0, 3).Draw(t, "inv") != 0 {
				c.Min, c.Max = c.Max, c.Min
			}
		default:
			c.Value = operand.Draw(t, "value")
		}
		return c
	})
}

var stringOps = numericOps

func genStringCondition(pool []string) *rapid.Generator[bs.StringCondition] {
	operand := rapid.SampledFrom(pool)
	return rapid.Custom(func(t *rapid.T) bs.StringCondition {
		op := rapid.SampledFrom(stringOps).Draw(t, "op")
		if chance(t, "unk", 2) {
			op = bs.QueryOperator("LIKE")
		}
		c := bs.StringCondition{Operator: op}
		switch op {
		case bs.OpIn, bs.OpNotIn:
			c.Values = rapid.SliceOfN(operand, 0, 3).Draw(t, "values")
			if len(c.Values) == 0 {
				c.Values = nil
			}
		case bs.OpBetween, bs.OpNotBetween:
			c.Min = operand.Draw(t, "min")
			c.Max = operand.Draw(t, "max")
			if c.Min > c.Max && rapid.IntRange(0, 3).Draw(t, "inv") != 0 {
				c.Min, c.Max = c.Max, c.Min
			}
		default:
			c.Value = operand.Draw(t, "value")
		}
		return c
	})
}

// genPrefilterTree draws a prefilter expression over the given minmax keys,
// numeric operand pool and partition pool: AND/OR nesting to depth 3, empty
// AND/OR, nil conditions, unknown expression/condition types.
func genPrefilterTree(keys []string, nums []int64, parts []string, depth int) *rapid.Generator[bs.PrefilterExpression] {
	return rapid.Custom(func(t *rapid.T) bs.PrefilterExpression {
		return drawPrefilterTree(t, keys, nums, parts, depth)
	})
}

func drawPrefilterTree(t *rapid.T, keys []string, nums []int64, parts []string, depth int) bs.PrefilterExpression {
	kind := rapid.IntRange(0, 99).Draw(t, "node")
	if depth <= 0 && kind >= 50 {
		kind = kind % 50
	}
	switch {
	case kind < 30: // minmax leaf
		key := rapid.SampledFrom(keys).Draw(t, "key")
		c := genNumericCondition(nums).Draw(t, "cond")
		return bs.MinMax(key, c)
	case kind < 44: // partition leaf
		c := genStringCondition(parts).Draw(t, "pcond")
		return bs.Partition(c)
	case kind < 46: // degenerate leaves
		switch rapid.IntRange(0, 4).Draw(t, "degen") {
		case 0:
			return bs.PrefilterExpression{ExpressionType: bs.PrefilterExpressionCondition} // nil condition = true
		case 1:
			return bs.PrefilterExpression{ExpressionType: "XOR"} // unknown = false
		case 2:
			return bs.PrefilterExpression{ExpressionType: bs.PrefilterExpressionCondition, Condition: &bs.PrefilterCondition{ConditionType: "BLOOM"}}
		case 3:
			return bs.PrefilterExpression{ExpressionType: bs.PrefilterExpressionCondition, Condition: &bs.PrefilterCondition{ConditionType: bs.PrefilterConditionMinMax, MinMaxFieldName: rapid.SampledFrom(keys).Draw(t, "key")}} // nil MinMaxCondition = true
		default:
			return bs.PrefilterExpression{ExpressionType: bs.PrefilterExpressionCondition, Condition: &bs.PrefilterCondition{ConditionType: bs.PrefilterConditionPartition}}
		}
	case kind < 50:
		if rapid.Bool().Draw(t, "emptyand") {
			return bs.PrefilterAnd()
		}
		return bs.PrefilterOr()
	default:
		n := rapid.IntRange(1, 3).Draw(t, "n")
		children := make([]bs.PrefilterExpression, n)
		for i := range children {
			children[i] = drawPrefilterTree(t, keys, nums, parts, depth-1)
		}
		if kind < 75 {
			return bs.PrefilterAnd(children...)
		}
		return bs.PrefilterOr(children...)
	}
}

// refFloorCeil: the exact floor and ceiling of a numeric value clamped into
// int64 (independent of ConvertToMinMaxInt64; math/big based).
func refFloorCeil(v Val) (lo, hi int64, ok bool) {
	e, isNum := v.Exact()
	if !isNum || e.NaN {
		return 0, 0, false
	}
	if e.Inf > 0 {
		return math.MaxInt64, math.MaxInt64, true
	}
	if e.Inf < 0 {
		return math.MinInt64, math.MinInt64, true
	}
	return clampBigFloor(e), clampBigCeil(e), true
}

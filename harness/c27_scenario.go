package harness

// C27 scenarios: operation histories that reach the engine's logging call
// sites (store failures, corrupt blocks, files without filters, failed merges,
// Stop deadline paths). Executed by the child program cmd/c27child, whose
// stdout and stderr are pipes owned by the parent test.

import (
	"context"
	"encoding/json"
	"errors"
	"fmt"
	"log/slog"
	"os"
	"path/filepath"
	"sync"
	"time"

	bs "github.com/danthegoodman1/bloomsearch"
)

type C27Op struct {
	Op       string `json:"op"` // ingest flush ext query merge corrupt stopwedged
	Rows     int    `json:"rows,omitempty"`
	NoFilter bool   `json:"nofilter,omitempty"` // ext: blocks without filter sections / absent filters
	Absent   int    `json:"absent,omitempty"`
	Query    string `json:"query,omitempty"` // all token fieldtoken field
	File     int    `json:"file,omitempty"`  // corrupt: which stored file (mod count)
	// Where (corrupt): "" one bit in the first row-data bytes; "late" one bit 40
	// bytes before the end (metadata / file-level filters, the footer tail stays
	// intact); "mid" one bit at two thirds of the file; "tail" the last byte;
	// "truncate" the second half cut off
	Where string `json:"where,omitempty"`
	// End (query): "" drain; "close1" Close after the first row and a pause;
	// "cancel1" cancel the context after the first row; "closenow" Close at once
	End string `json:"end,omitempty"`
}

type C27Fault struct {
	Kind string `json:"kind"` // CreateFile Write Close Update Tombstone OpenFile Read Seek RClose IterYield
	N    int    `json:"n"`
	// Op is the index of the operation during which the N-th call of Kind
	// fails (calls are counted per operation); -1 counts over the whole run.
	Op int `json:"at"`
}

type C27Scenario struct {
	Comp   string     `json:"comp"`
	Ops    []C27Op    `json:"ops"`
	Faults []C27Fault `json:"faults,omitempty"`
	// Store: "" in-memory stores; "fs" FileSystemDataStore as DataStore and
	// MetaStore; "fsdata" FileSystemDataStore under an in-memory MetaStore
	Store string `json:"store,omitempty"`
	// QueryConc: MaxQueryConcurrency (0 = 4)
	QueryConc int `json:"query_conc,omitempty"`
}

type C27Outcome struct {
	Completed bool     `json:"completed"`
	Warns     int      `json:"warns"`
	Records   int      `json:"records"`
	Messages  []string `json:"messages,omitempty"`
	Panic     string   `json:"panic,omitempty"`
	// Paths names the failure paths the run went through (fault kinds that
	// fired, operations that returned which error class).
	Paths []string `json:"paths,omitempty"`
}

type countingHandler struct {
	mu  sync.Mutex
	out *C27Outcome
}

func (h *countingHandler) Enabled(context.Context, slog.Level) bool { return true }
func (h *countingHandler) Handle(_ context.Context, r slog.Record) error {
	h.mu.Lock()
	defer h.mu.Unlock()
	h.out.Records++
	if r.Level >= slog.LevelWarn {
		h.out.Warns++
		if len(h.out.Messages) < 8 {
			h.out.Messages = append(h.out.Messages, r.Message)
		}
	}
	return nil
}
func (h *countingHandler) WithAttrs([]slog.Attr) slog.Handler { return h }
func (h *countingHandler) WithGroup(string) slog.Handler      { return h }

// RunC27Scenario executes the scenario. withLogger=false leaves
// BloomSearchEngineConfig.Logger nil (the configuration under test);
// withLogger=true installs a counting logger (the twin run that proves the
// logging call sites were reached).
func RunC27Scenario(s C27Scenario, withLogger bool) (out C27Outcome) {
	defer func() {
		if r := recover(); r != nil {
			out.Panic = fmt.Sprint(r)
		}
	}()
	var ds *MemDataStore
	var dstore bs.DataStore
	var ms bs.MetaStore = bs.NewMemoryMetaStore()
	fsDir := ""
	if s.Store == "fs" || s.Store == "fsdata" {
		d, err := os.MkdirTemp("", "verif-c27d-")
		if err != nil {
			panic(err)
		}
		defer os.RemoveAll(d)
		fsDir = d
		fs := bs.NewFileSystemDataStore(d)
		dstore = fs
		if s.Store == "fs" {
			ms = fs
		}
	} else {
		ds = NewMemDataStore(false)
		dstore = ds
	}
	tr := NewTrace(dstore, ms)
	var fmu sync.Mutex
	seen := map[string]int{}
	seenOp := map[string]int{}
	curOp := -1
	paths := map[string]bool{}
	path := func(p string) {
		fmu.Lock()
		paths[p] = true
		fmu.Unlock()
	}
	defer func() {
		for p := range paths {
			out.Paths = append(out.Paths, p)
		}
		sortStrings(out.Paths)
	}()
	tr.Before = func(ci *CallInfo) error {
		fmu.Lock()
		defer fmu.Unlock()
		n := seen[ci.Kind]
		seen[ci.Kind]++
		k := fmt.Sprintf("%d/%s", curOp, ci.Kind)
		m := seenOp[k]
		seenOp[k]++
		for _, f := range s.Faults {
			if f.Kind != ci.Kind {
				continue
			}
			if (f.Op < 0 && f.N == n) || (f.Op == curOp && f.N == m) {
				op := "setup"
				if curOp >= 0 && curOp < len(s.Ops) {
					op = s.Ops[curOp].Op
				}
				paths["fault "+ci.Kind+" during "+op] = true
				return fmt.Errorf("%w (%s #%d)", errInjected, f.Kind, n)
			}
		}
		return nil
	}
	cfg := EngCfg{Tokenizer: "default", Compression: s.Comp, FPR: 0.01, RGRows: 10000, RGBytes: 10 << 20, BufRows: 1000, BufBytes: 1 << 20,
		IngestBuf: 8, QueryConc: 4, Partition: "none", MaxFileSize: 10 << 30, MaxMerge: 10, ZstdLevel: 3}
	if s.QueryConc > 0 {
		cfg.QueryConc = s.QueryConc
	}
	mk := func() *bs.BloomSearchEngine {
		c := cfg.Build()
		if withLogger {
			c.Logger = slog.New(&countingHandler{out: &out})
		}
		eng, err := bs.NewBloomSearchEngine(c, tr, tr)
		if err != nil {
			panic(err)
		}
		eng.Start()
		return eng
	}
	eng := mk()
	ctx := context.Background()
	w := &World{Data: tr, Meta: tr, MemData: ds, Dir: fsDir, Rows: map[int]*StoredRow{}}
	nextID := 1
	stopped := false
	for i, op := range s.Ops {
		fmu.Lock()
		curOp = i
		fmu.Unlock()
		if stopped {
			eng = mk()
			stopped = false
		}
		switch op.Op {
		case "ingest":
			var rows []map[string]any
			for i := 0; i < maxInt(op.Rows, 1); i++ {
				rows = append(rows, map[string]any{"id": nextID, "msg": fmt.Sprintf("row %d error", nextID), "tag": "t"})
				nextID++
			}
			done := make(chan error, 1)
			if eng.IngestRows(ctx, rows, done) == nil {
				fctx, cancel := context.WithTimeout(ctx, 5*time.Second)
				eng.Flush(fctx)
				cancel()
				select {
				case err := <-done:
					if err != nil {
						path("ingest acknowledged with an error")
					}
				case <-time.After(5 * time.Second):
				}
			}
		case "flush":
			fctx, cancel := context.WithTimeout(ctx, 5*time.Second)
			eng.Flush(fctx)
			cancel()
		case "bulk":
			// many small files: more blocks than a query's pipeline absorbs at once
			for k := 0; k < maxInt(op.Rows, 1); k++ {
				rows := []map[string]any{{"id": nextID, "msg": fmt.Sprintf("row %d error", nextID), "tag": "t"}, {"id": nextID + 1, "msg": "again error", "tag": "t"}}
				nextID += 2
				done := make(chan error, 1)
				if eng.IngestRows(ctx, rows, done) == nil {
					fctx, cancel := context.WithTimeout(ctx, 5*time.Second)
					eng.Flush(fctx)
					cancel()
					select {
					case <-done:
					case <-time.After(5 * time.Second):
					}
				}
			}
		case "ext":
			var rows []Val
			for i := 0; i < maxInt(op.Rows, 1); i++ {
				rows = append(rows, VObj(kv("msg", VStr("external row error")), kv("tag", VStr("t"))))
			}
			writeExternalFile(w, cfg, 0, Step{Op: "ext", Rows: rows, Ext: &ExtOpt{Blocks: 2, NoBlockFilters: op.NoFilter, AbsentFilter: op.Absent, NoFileFilters: op.NoFilter}}, &nextID)
		case "query":
			var q *bs.Query
			switch op.Query {
			case "token":
				q = bs.NewQuery().Token("error").Build()
			case "fieldtoken":
				q = bs.NewQuery().FieldToken("tag", "t").Build()
			case "field":
				q = bs.NewQuery().Field("msg").Build()
			}
			qctx, qcancel := context.WithCancel(ctx)
			if res, err := eng.Query(qctx, q); err == nil {
				switch op.End {
				case "closenow":
					res.Close()
					path("query closed before its first row")
				case "close1":
					if res.Next() {
						time.Sleep(40 * time.Millisecond) // the pipeline fills up behind the idle consumer
						path("query closed after its first row")
					}
					res.Close()
				case "cancel1":
					if res.Next() {
						time.Sleep(40 * time.Millisecond)
						qcancel()
						path("query cancelled after its first row")
					}
					for res.Next() {
					}
				default:
					for res.Next() {
					}
				}
				if res.Err() != nil {
					path("query cursor ended with an error")
				}
				res.Close()
				qcancel()
			} else {
				qcancel()
				path("query returned an error")
			}
		case "merge":
			st, err := eng.Merge(ctx)
			switch {
			case err != nil && errors.Is(err, bs.ErrPostCommitCleanup):
				path("merge committed, cleanup failed")
			case err != nil:
				path("merge returned an error")
			case st != nil && st.FilesProcessed > 0:
				path("merge committed")
			}
		case "corrupt":
			files := map[string][]byte{}
			if ds != nil {
				files = ds.Files()
			} else if names, err := filepath.Glob(filepath.Join(fsDir, "*.dat")); err == nil {
				for _, n := range names {
					if b, err := os.ReadFile(n); err == nil {
						files[n] = b
					}
				}
			}
			var names []string
			for n := range files {
				names = append(names, n)
			}
			if len(names) > 0 {
				sortStrings(names)
				n := names[op.File%len(names)]
				b := append([]byte(nil), files[n]...)
				if len(b) > 60 {
					switch op.Where {
					case "late":
						b[len(b)-40] ^= 0x04
					case "mid":
						b[len(b)*2/3] ^= 0x10
					case "tail":
						b[len(b)-1] ^= 0xff
					case "truncate":
						b = b[:len(b)/2]
					default:
						b[3] ^= 0x20
					}
					if ds != nil {
						ds.Put(n, b)
					} else {
						os.WriteFile(n, b, 0o644)
					}
					path("stored file damaged (" + op.Where + ")")
				}
			}
		case "stopwedged":
			// an abandoned unbuffered done channel wedges the flush worker; Stop with
			// a short deadline then takes the "flush abandoned" paths
			abandoned := make(chan error)
			eng.IngestRows(ctx, []map[string]any{{"id": nextID, "msg": "wedge"}}, abandoned)
			nextID++
			go eng.Flush(ctx)
			time.Sleep(5 * time.Millisecond)
			more := make(chan error, 1)
			eng.IngestRows(ctx, []map[string]any{{"id": nextID, "msg": "queued"}}, more)
			nextID++
			go eng.Flush(ctx)
			time.Sleep(5 * time.Millisecond)
			sctx, cancel := context.WithTimeout(ctx, 60*time.Millisecond)
			eng.Stop(sctx)
			cancel()
			stopped = true
		}
	}
	if !stopped {
		sctx, cancel := context.WithTimeout(ctx, 5*time.Second)
		eng.Stop(sctx)
		cancel()
	}
	out.Completed = true
	return out
}

func sortStrings(s []string) {
	for i := 1; i < len(s); i++ {
		for j := i; j > 0 && s[j] < s[j-1]; j-- {
			s[j], s[j-1] = s[j-1], s[j]
		}
	}
}

// C27ChildMain is the body of the child program.
func C27ChildMain(args []string) int {
	if len(args) != 3 {
		return 3
	}
	b, err := os.ReadFile(args[0])
	if err != nil {
		return 3
	}
	var s C27Scenario
	if json.Unmarshal(b, &s) != nil {
		return 3
	}
	out := RunC27Scenario(s, args[2] == "logged")
	ob, _ := json.Marshal(out)
	if os.WriteFile(args[1], ob, 0o600) != nil {
		return 3
	}
	return 0
}

package harness

// C05 — every accepted batch is answered exactly once.
// Generated schedules: 1-4 client goroutines issuing IngestRows (good / empty /
// unmarshalable batches; buffered, live-drained unbuffered and nil done
// channels), Flush, Stop, Query, Merge against an engine that is started early,
// late, twice or never, over stores with generated latency and one-shot
// failures. History invariant: once Stop has returned nil, every batch whose
// IngestRows returned nil has received exactly one value, every Flush that was
// accepted has returned, and nothing is answered twice.

import (
	"context"
	"errors"
	"fmt"
	"sync"
	"testing"
	"time"

	bs "github.com/danthegoodman1/bloomsearch"
	"pgregory.net/rapid"
)

type c05Op struct {
	Op      string `json:"op"`             // ingest flush stop query merge pause
	Kind    string `json:"kind,omitempty"` // good empty bad
	Chan    string `json:"chan,omitempty"` // buf unbuf nil
	Rows    int    `json:"rows,omitempty"`
	CtxMs   int    `json:"ctx_ms,omitempty"`   // IngestRows/Flush ctx timeout (0 = none)
	SlowCtx int    `json:"slowctx_us,omitempty"` // ctx whose Done() call parks for this long
	PauseUs int    `json:"pause_us,omitempty"`
}

type c05Case struct {
	Cfg       EngCfg      `json:"cfg"`
	Store     StoreScript `json:"store"`
	Clients   [][]c05Op   `json:"clients"`
	StartMode string      `json:"start"` // first late never twice
	StartUs   int         `json:"start_us,omitempty"`
	Procs     int         `json:"procs,omitempty"`
}

func genC05() *rapid.Generator[c05Case] {
	return rapid.Custom(func(t *rapid.T) c05Case {
		c := c05Case{}
		c.Cfg = EngCfg{Tokenizer: "default", Compression: pick(t, "comp", []string{"none", "snappy"}), FPR: 0.01,
			RGRows: pick(t, "rgrows", []int{10000, 2, 3}), RGBytes: pick(t, "rgbytes", []int{10 << 20, 300}),
			BufRows: pick(t, "bufrows", []int{1000, 1, 2, 4}), BufBytes: pick(t, "bufbytes", []int{1 << 20, 200}),
			BufTimeMs: pick(t, "buftime", []int{0, 20, 60}), IngestBuf: pick(t, "ingestbuf", []int{1, 2, 8, 1000}),
			QueryConc: 4, Partition: pick(t, "part", []string{"none", "field"}), MaxFileSize: 10 << 30, MaxMerge: 10}
		c.StartMode = pick(t, "start", []string{"first", "first", "late", "never", "twice", "first"})
		c.StartUs = rapid.IntRange(0, 3000).Draw(t, "startus")
		c.Procs = pick(t, "procs", []int{0, 1, 2, 4})
		c.Store.LatencyUs = map[string]int{}
		for _, k := range []string{"CreateFile", "Write", "Close", "Update"} {
			if chance(t, "lat_"+k, 40) {
				c.Store.LatencyUs[k] = pick(t, "latus_"+k, []int{100, 500, 2000})
			}
		}
		for i := rapid.IntRange(0, 2).Draw(t, "nfail"); i > 0; i-- {
			c.Store.FailKind = append(c.Store.FailKind, pick(t, "failkind", []string{"CreateFile", "Write", "Close", "Update", "Tombstone"}))
			c.Store.FailN = append(c.Store.FailN, rapid.IntRange(0, 4).Draw(t, "failn"))
		}
		nc := rapid.IntRange(1, 4).Draw(t, "nclients")
		stopGiven := false
		for ci := 0; ci < nc; ci++ {
			n := rapid.IntRange(1, 6).Draw(t, "nops")
			var ops []c05Op
			for i := 0; i < n; i++ {
				k := unif(t, "op", 20)
				switch {
				case k < 11:
					op := c05Op{Op: "ingest", Kind: pick(t, "kind", []string{"good", "good", "good", "empty", "bad"}), Chan: pick(t, "chan", []string{"buf", "buf", "unbuf", "nil", "shared"}), Rows: rapid.IntRange(1, 3).Draw(t, "rows")}
					if c.StartMode == "never" || c.StartMode == "late" || chance(t, "ctx", 30) {
						op.CtxMs = pick(t, "ctxms", []int{20, 50, 200})
					}
					if chance(t, "slowctx", 8) {
						op.SlowCtx = pick(t, "slowus", []int{200, 1000, 3000})
					}
					ops = append(ops, op)
				case k < 14:
					op := c05Op{Op: "flush"}
					if c.StartMode == "never" || chance(t, "fctx", 20) {
						op.CtxMs = pick(t, "fctxms", []int{20, 100})
					}
					ops = append(ops, op)
				case k < 16 && !stopGiven:
					stopGiven = true
					ops = append(ops, c05Op{Op: "stop"})
				case k < 17:
					ops = append(ops, c05Op{Op: "query"})
				case k < 18:
					ops = append(ops, c05Op{Op: "merge"})
				default:
					ops = append(ops, c05Op{Op: "pause", PauseUs: rapid.IntRange(0, 2000).Draw(t, "pause")})
				}
			}
			c.Clients = append(c.Clients, ops)
		}
		return c
	})
}

type c05FlushCall struct {
	client   int
	accepted bool // request reached the engine (returned something other than ctx error / stopped)
	err      error
	returned bool
}

func runC05(c c05Case) *Violation {
	Ev.Eval(1)
	if c.Procs > 0 {
		prev := setProcs(c.Procs)
		defer setProcs(prev)
	}
	ds := NewMemDataStore(false)
	ms := bs.NewMemoryMetaStore()
	tr := NewTrace(ds, ms)
	ctl := NewStoreCtl(c.Store)
	tr.Before = ctl.Hook
	eng, err := bs.NewBloomSearchEngine(c.Cfg.Build(), tr, tr)
	if err != nil {
		return violf("config rejected: %v", err)
	}
	book := NewAckBook(tr.tick)
	defer book.StopReceivers()
	bg := context.Background()

	switch c.StartMode {
	case "first":
		eng.Start()
	case "twice":
		eng.Start()
		eng.Start()
	case "late":
		go func() { time.Sleep(time.Duration(c.StartUs) * time.Microsecond); eng.Start() }()
	}

	var mu sync.Mutex
	var flushes []*c05FlushCall
	var stopErr error
	stopCalled, stopReturned := false, false
	stopOverlap, acceptedBeforeStart, failFired := false, false, false
	var wg sync.WaitGroup
	for ci, ops := range c.Clients {
		wg.Add(1)
		go func(ci int, ops []c05Op) {
			defer wg.Done()
			for _, op := range ops {
				switch op.Op {
				case "pause":
					time.Sleep(time.Duration(op.PauseUs) * time.Microsecond)
				case "ingest":
					b := book.NewBatch(op.Kind, op.Chan, op.Rows, 2)
					ctx, cancel := bg, context.CancelFunc(func() {})
					if op.CtxMs > 0 {
						ctx, cancel = context.WithTimeout(bg, time.Duration(op.CtxMs)*time.Millisecond)
					}
					if op.SlowCtx > 0 {
						sc := newSlowDoneCtx()
						sc.Context = ctx
						go func() { time.Sleep(time.Duration(op.SlowCtx) * time.Microsecond); sc.Release() }()
						ctx = sc
					}
					mu.Lock()
					inStop := stopCalled && !stopReturned
					mu.Unlock()
					b.CallT0 = tr.tick()
					err := eng.IngestRows(ctx, b.Rows, b.Ch)
					b.mu.Lock()
					b.CallT1, b.CallErr, b.Accepted = tr.tick(), err, err == nil
					b.mu.Unlock()
					cancel()
					mu.Lock()
					if err == nil && (inStop || (stopCalled && !stopReturned)) {
						stopOverlap = true
					}
					if err == nil && (c.StartMode == "never" || c.StartMode == "late") {
						acceptedBeforeStart = true
					}
					mu.Unlock()
				case "flush":
					fc := &c05FlushCall{client: ci}
					mu.Lock()
					flushes = append(flushes, fc)
					mu.Unlock()
					ctx, cancel := bg, context.CancelFunc(func() {})
					if op.CtxMs > 0 {
						ctx, cancel = context.WithTimeout(bg, time.Duration(op.CtxMs)*time.Millisecond)
					}
					err := eng.Flush(ctx)
					cancel()
					mu.Lock()
					fc.err, fc.returned = err, true
					mu.Unlock()
				case "stop":
					mu.Lock()
					stopCalled = true
					mu.Unlock()
					sctx, cancel := context.WithTimeout(bg, 20*time.Second)
					err := eng.Stop(sctx)
					cancel()
					mu.Lock()
					stopErr, stopReturned = err, true
					mu.Unlock()
				case "query":
					if res, err := eng.Query(bg, nil); err == nil {
						for res.Next() {
						}
						res.Close()
					}
				case "merge":
					eng.Merge(bg)
				}
			}
		}(ci, ops)
	}
	clientsDone := make(chan struct{})
	go func() { wg.Wait(); close(clientsDone) }()

	// Let the clients run; then stop gracefully (if the script has not).
	select {
	case <-clientsDone:
	case <-time.After(2 * time.Second):
	}
	mu.Lock()
	needStop := !stopCalled
	mu.Unlock()
	if needStop {
		mu.Lock()
		stopCalled = true
		mu.Unlock()
		sctx, cancel := context.WithTimeout(bg, 20*time.Second)
		err := eng.Stop(sctx)
		cancel()
		mu.Lock()
		stopErr, stopReturned = err, true
		mu.Unlock()
	}
	// every client must come back once the engine has stopped
	select {
	case <-clientsDone:
	case <-time.After(8 * time.Second):
		return violf("client goroutines still blocked 8s after the run (Stop err=%v): an accepted Flush/IngestRows never returned; start mode %q", stopErr, c.StartMode)
	}
	mu.Lock()
	serr := stopErr
	mu.Unlock()
	for k := range ctl.Fired {
		_ = k
		failFired = true
	}
	if serr != nil {
		// not a graceful stop: C05 states no obligation (C08 judges Stop itself)
		Ev.Class("stop-not-graceful(no obligation)")
		return nil
	}
	// Stop returned nil: every accepted batch has exactly one value — now, and
	// still after a quiescence window.
	time.Sleep(2 * time.Millisecond) // live receivers run on their own goroutines
	book.Collect()
	check := func(when string) *Violation {
		for _, b := range book.All() {
			b.mu.Lock()
			acc, kind, ck, cerr := b.Accepted, b.Kind, b.ChanKind, b.CallErr
			b.mu.Unlock()
			vals := b.values()
			if ck == "nil" || ck == "shared" {
				continue
			}
			if !acc {
				if len(vals) > 1 {
					return violf("%s: a batch whose IngestRows returned %v was answered %d times", when, cerr, len(vals))
				}
				continue
			}
			if len(vals) == 0 && when == "after quiescence" {
				return violf("accepted %s batch #%d (%d rows, %s done channel) was never answered although Stop returned nil (start mode %q; store failures fired: %v)", kind, b.N, len(b.IDs), ck, c.StartMode, ctl.Fired)
			}
			if len(vals) > 1 {
				return violf("%s: accepted %s batch #%d (%s done channel) was answered %d times: %v", when, kind, b.N, ck, len(vals), vals)
			}
			if len(vals) == 1 && kind == "bad" && vals[0].Err == nil {
				return violf("batch #%d with an unmarshalable row was answered with nil", b.N)
			}
		}
		return nil
	}
	if v := check("right after Stop"); v != nil {
		return v
	}
	time.Sleep(30 * time.Millisecond)
	book.Collect()
	if v := check("after quiescence"); v != nil {
		return v
	}
	// batches that share ONE done channel: one value per accepted batch
	sharedAccepted, sharedAny := 0, 0
	for _, b := range book.All() {
		if b.ChanKind != "shared" {
			continue
		}
		sharedAny++
		b.mu.Lock()
		if b.Accepted {
			sharedAccepted++
		}
		b.mu.Unlock()
	}
	if sharedAny > 0 {
		book.mu.Lock()
		got := len(book.SharedRecv)
		book.mu.Unlock()
		if got != sharedAccepted {
			return violf("%d accepted batches were given the same buffered done channel (capacity 4096) and Stop returned nil, but %d values arrived on it (want one per accepted batch)", sharedAccepted, got)
		}
		if sharedAccepted >= 2 {
			Ev.Class("shared-done-channel(>=2 batches)")
		}
	}
	accepted := 0
	for _, b := range book.All() {
		if b.Accepted && b.Kind != "empty" {
			accepted++
		}
	}
	Ev.Class("start=" + c.StartMode)
	if stopOverlap {
		Ev.Class("ingest-accepted-while-stop-running")
	}
	if acceptedBeforeStart {
		Ev.Class("accepted-before-start")
	}
	if failFired {
		Ev.Class("store-failure-fired")
	}
	autoTrigger := c.Cfg.BufRows <= 4 || c.Cfg.BufBytes <= 200 || c.Cfg.RGRows <= 3 || c.Cfg.BufTimeMs > 0
	if accepted >= 1 && (stopOverlap || acceptedBeforeStart || failFired || autoTrigger) {
		Ev.NonTrivial(jsonKey(c))
		if Ev.WantSample() {
			Ev.Sample(c)
		}
	}
	return nil
}

var procsMu sync.Mutex

func TestC05(t *testing.T) {
	Ev.Rule = "case = schedule: 1-4 client goroutines with 1-6 operations each (IngestRows of good/empty/unmarshalable batches with buffered cap-4, live-drained unbuffered, nil, or one channel shared by several batches, optional ctx timeouts and contexts whose Done() is slow; Flush; at most one scripted Stop; Query; Merge; pauses), engine started first / late / twice / never, IngestBufferSize 1..1000, row/byte/time/partition flush triggers, stores with per-call latency and up to two one-shot failures, GOMAXPROCS varied. Invariant judged on the recorded history once Stop returned nil: every batch whose IngestRows returned nil has received exactly one value (checked right after Stop and after a quiescence window), every accepted Flush has returned, no batch is answered twice, unmarshalable batches get an error. stoprace phase: callers held between the stopped check and the enqueue by a Context whose Done() parks, released before/during/after Stop (same invariant). Non-trivial: >=1 accepted non-empty batch and (IngestRows accepted while Stop was running, or accepted before Start, or a store failure fired, or a non-Flush trigger configured); distinct by case."
	Ev.Assumptions = []string{"a Stop that does not return nil imposes no C05 obligation (C08 judges Stop)", "interleavings that cross neither a client call nor a store call are left to the Go scheduler and repetition"}
	runChecks(t, "schedules", 300, 10000, genC05(), runC05)
	runChecks(t, "stoprace", 60, 1500, genStopRace(), runStopRace)
}

var _ = errors.Is
var _ = fmt.Sprint

package harness

// Row generators: JSON-marshalable rows built to hit the corners the search
// code special-cases (DESIGN.md section 3).

import (
	"encoding/json"
	"fmt"
	"math"
	"strings"

	"pgregory.net/rapid"
)

// Key pool: plain, delimiter forms, gjson metacharacters, unicode, empty.
var keyPool = []string{
	"level", "msg", "a", "b", "user", "name", "tags", "service",
	"a.b", "user.name", "a..b", ".a", "a.", ".", "..",
	"*", "a*b", "?", `\`, `a\.b`, "#", "@this", "|", "a|b", "0", "-1",
	"ключ", "键", "é", "", "a::b", "sp ace", "::", "x::", "A", "Level",
}

// Token pool with case variants and unicode case-folding oddities.
var wordPool = []string{
	"error", "Error", "ERROR", "info", "timeout", "login", "failed", "admin", "john", "x", "42", "true", "null",
	"É", "é", "ǅ", "ǆ", "İ", "i̇", "ß", "ẞ", "K", "k", "Σ", "ς", "σ", "ÀB", "àb",
	"a::b", "::", "x::y", "a.b", "foo-bar", "foo_bar", `q"uote`, `back\slash`, "<tag>", "&amp;", "tab", "nul",
	"日本語", "🙂", "é", "é",
}

// Every unicode.IsSpace separator plus a few non-space lookalikes.
var sepPool = []string{
	" ", "  ", "\t", "\n", "\r\n", "\v", "\f", "\u0085", "\u00a0", "\u1680", "\u2000", "\u2003", "\u2028", "\u2029", "\u202f", "\u205f", "\u3000",
	"\u200b", "\ufeff", "\u180e", // NOT spaces (zero width space, BOM, mongolian vowel separator)
	"\x1c", "\x1f", "\x00", // ASCII control characters that are not unicode spaces
}

func genText() *rapid.Generator[string] {
	return rapid.Custom(func(t *rapid.T) string {
		n := rapid.IntRange(0, 4).Draw(t, "nwords")
		var sb strings.Builder
		if chance(t, "leadsep", 15) {
			sb.WriteString(rapid.SampledFrom(sepPool).Draw(t, "lsep"))
		}
		for i := 0; i < n; i++ {
			if i > 0 {
				sb.WriteString(rapid.SampledFrom(sepPool).Draw(t, "sep"))
			}
			sb.WriteString(rapid.SampledFrom(wordPool).Draw(t, "word"))
		}
		if chance(t, "trailsep", 15) {
			sb.WriteString(rapid.SampledFrom(sepPool).Draw(t, "tsep"))
		}
		s := sb.String()
		if chance(t, "invalidutf8", 2) {
			s += "\xff\xfeZ" // json.Marshal coerces to U+FFFD
		}
		if chance(t, "long", 2) {
			s += " " + strings.Repeat("L", rapid.IntRange(100, 3000).Draw(t, "longn")) + " tail"
		}
		if chance(t, "random", 5) {
			s += rapid.String().Draw(t, "rnd")
		}
		return s
	})
}

// genMarshalableNum: a numeric Val that encoding/json can marshal.
func genMarshalableNum() *rapid.Generator[Val] {
	return genNumVal().Filter(func(v Val) bool { return v.Marshalable() })
}

var rawNumberPool = []string{"1E5", "-0", "0.0", "1e-7", "123456789012345678901234567890", "1.5e300", "-1E400", "9007199254740993", "0.1", "1e21", "12", "-7"}

// rawJSONPool: raw JSON documents (json.RawMessage values). Index 0.. are plain,
// the tail holds the exotic forms (duplicate keys, surrogates).
var rawJSONPool = []string{
	`{"k":"v"}`, `[1,2,3]`, `"plain"`, `true`, `null`, `{}`, `[]`,
	`{"n":1E5,"m":-0,"z":0.0}`, `{"big":123456789012345678901234567890}`,
	`"escAé\/\n\t\"\\"`, `"pair🙂x"`,
	`{ "sp" : [ 1 , "two" , { "a.b" : null } ] }`,
	`{"a.b":{"c":1},"a":{"b":{"d":"x y"}}}`,
	`{"":"emptykey","x":{"":2}}`,
	`[[1,[2,"deep error"]],{"l":["A B","c"]}]`,
	`{"dup":1,"dup":"two"}`,
	`"lone\ud800surrogate"`,
	`{"e":1e400}`,
}

func genRaw() *rapid.Generator[Val] {
	return rapid.Custom(func(t *rapid.T) Val {
		if chance(t, "rawnum", 30) {
			return VRaw(rapid.SampledFrom(rawNumberPool).Draw(t, "rawnum"))
		}
		return VRaw(rapid.SampledFrom(rawJSONPool).Draw(t, "raw"))
	})
}

func genScalar() *rapid.Generator[Val] {
	return rapid.Custom(func(t *rapid.T) Val {
		switch unif(t, "scalar", 20) {
		case 0, 1, 2, 3, 4, 5, 6, 7:
			return VStr(genText().Draw(t, "text"))
		case 8, 9, 10, 11:
			return genMarshalableNum().Draw(t, "num")
		case 12:
			return VBool(rapid.Bool().Draw(t, "b"))
		case 13:
			return VNull()
		case 14:
			return VJNum(rapid.SampledFrom([]string{"12", "1.50", "1e3", "-0", "123456789012345678901234567890"}).Draw(t, "jnum"))
		case 15:
			return genRaw().Draw(t, "raw")
		case 16:
			return VStr(rapid.SampledFrom(wordPool).Draw(t, "oneword"))
		case 17:
			return VStr("")
		default:
			return VInt(int64(rapid.IntRange(-3, 1000).Draw(t, "smallint")))
		}
	})
}

func genKey() *rapid.Generator[string] {
	return rapid.SampledFrom(keyPool)
}

// drawObjMembers draws distinct-key members; noEmptyTop excludes "" (the
// semantics of a top-level "" key are undocumented, see oracle).
func drawObjMembers(t *rapid.T, depth int, maxN int, noEmpty bool) []KV {
	n := rapid.IntRange(0, maxN).Draw(t, "nmembers")
	seen := map[string]bool{}
	var out []KV
	for i := 0; i < n; i++ {
		k := genKey().Draw(t, "key")
		if seen[k] || (noEmpty && k == "") {
			continue
		}
		seen[k] = true
		out = append(out, KV{K: k, V: drawValue(t, depth-1)})
	}
	return out
}

func drawValue(t *rapid.T, depth int) Val {
	if depth <= 0 {
		return genScalar().Draw(t, "scalar")
	}
	switch unif(t, "valkind", 20) {
	case 0, 1, 2:
		return Val{K: "obj", O: drawObjMembers(t, depth, 3, false)}
	case 3, 4, 5:
		n := rapid.IntRange(0, 3).Draw(t, "arrn")
		a := make([]Val, n)
		for i := range a {
			a[i] = drawValue(t, depth-1)
		}
		return Val{K: "arr", A: a}
	case 6:
		n := rapid.IntRange(0, 3).Draw(t, "strsn")
		a := make([]Val, n)
		for i := range a {
			a[i] = VStr(genText().Draw(t, "s"))
		}
		return Val{K: "strs", A: a}
	case 7:
		var o []KV
		seen := map[string]bool{}
		for i := rapid.IntRange(0, 3).Draw(t, "mapn"); i > 0; i-- {
			k := genKey().Draw(t, "mk")
			if !seen[k] {
				seen[k] = true
				o = append(o, KV{K: k, V: VInt(int64(rapid.IntRange(-5, 5).Draw(t, "mv")))})
			}
		}
		return Val{K: "mapsi", O: o}
	case 8:
		v := Val{K: "struct", S: genText().Draw(t, "sname"), I: int64(rapid.IntRange(0, 3).Draw(t, "scount"))}
		for i := rapid.IntRange(0, 2).Draw(t, "stags"); i > 0; i-- {
			v.A = append(v.A, VStr(rapid.SampledFrom(wordPool).Draw(t, "tag")))
		}
		if rapid.Bool().Draw(t, "sinner") {
			v.O = drawObjMembers(t, 1, 2, false)
		}
		return v
	default:
		return genScalar().Draw(t, "scalar")
	}
}

// RowSpec describes what the generated rows of one case look like.
type RowSpec struct {
	PartField string   // top-level string field the partition function reads ("" = none)
	NumFields []string // top-level fields that carry Go numbers (candidates for minmax keys)
	TopEmpty  bool     // allow a top-level "" key (rows become "uncertain" for the oracle)
}

var partPool = []string{"p1", "p2", "", "P1", "p10", "z", "p3"}

// drawRow draws one row (without id; the history assigns it).
func drawRow(t *rapid.T, spec RowSpec) Val {
	members := drawObjMembers(t, 3, 5, !spec.TopEmpty || !chance(t, "topempty", 30))
	if spec.PartField != "" && !chance(t, "nopart", 10) {
		members = setMember(members, spec.PartField, VStr(rapid.SampledFrom(partPool).Draw(t, "part")))
	}
	for _, nf := range spec.NumFields {
		switch unif(t, "numf_"+nf, 10) {
		case 0:
			// absent
			members = delMember(members, nf)
		case 1:
			members = setMember(members, nf, rapid.SampledFrom([]Val{VStr("17"), VNull(), VJNum("5"), VArr(VInt(3))}).Draw(t, "nonnum"))
		default:
			members = setMember(members, nf, genMarshalableNum().Draw(t, "numv"))
		}
	}
	return Val{K: "obj", O: members}
}

func setMember(ms []KV, k string, v Val) []KV {
	for i := range ms {
		if ms[i].K == k {
			ms[i].V = v
			return ms
		}
	}
	return append(ms, KV{K: k, V: v})
}

func delMember(ms []KV, k string) []KV {
	out := ms[:0:0]
	for _, m := range ms {
		if m.K != k {
			out = append(out, m)
		}
	}
	return out
}

func getMember(v Val, k string) (Val, bool) {
	for _, m := range v.O {
		if m.K == k {
			return m.V, true
		}
	}
	return Val{}, false
}

// withID returns the row with "id" set (first member).
func withID(row Val, id int) Val {
	ms := append([]KV{{K: "id", V: VInt(int64(id))}}, delMember(row.O, "id")...)
	return Val{K: "obj", O: ms}
}

func rowGo(row Val) map[string]any {
	return row.ToGo().(map[string]any)
}

func rowID(m map[string]any) (int, bool) {
	switch x := m["id"].(type) {
	case float64:
		if x == math.Trunc(x) {
			return int(x), true
		}
	case int:
		return x, true
	case int64:
		return int(x), true
	case json.Number:
		if i, err := x.Int64(); err == nil {
			return int(i), true
		}
	}
	return 0, false
}

func mustMarshal(v any) []byte {
	b, err := json.Marshal(v)
	if err != nil {
		panic(fmt.Sprintf("harness: marshal: %v", err))
	}
	return b
}

//go:build verif

package harness

// C15 — the filesystem store is crash-consistent.
// Crash-point enumeration: generated sequential histories (ingest, flush,
// failed flush, merge, failed merge) run on a real temp directory with
// FileSystemDataStore as both stores. The verif hook reports every filesystem
// mutation before and after it happens; at every "before" event the harness
// materialises the crash image (the directory as it is) and power-loss images
// from a durability model (file bytes as of the inode's last fsync, directory
// entries as of the last directory fsync, plus every ordered prefix of the
// directory operations still pending), and recovers each with a fresh engine.

import (
	"context"
	"fmt"
	"os"
	"path/filepath"
	"sort"
	"strings"
	"sync"
	"syscall"
	"testing"
	"time"

	bs "github.com/danthegoodman1/bloomsearch"
	"pgregory.net/rapid"
)

type c15Step struct {
	Op    string `json:"op"` // ingest, merge
	Rows  int    `json:"rows,omitempty"`
	Parts int    `json:"parts,omitempty"`
	// Group: partitions of different groups are disjoint, so files of different
	// groups have no mergeable partner and one Merge forms several merge groups
	Group int `json:"group,omitempty"`
	// one-shot store failure injected (through the tracing wrapper) during this step
	FailKind string `json:"fail_kind,omitempty"`
	FailN    int    `json:"fail_n,omitempty"`
}

type c15Case struct {
	Comp  string    `json:"comp"`
	Steps []c15Step `json:"steps"`
}

func genC15() *rapid.Generator[c15Case] {
	return rapid.Custom(func(t *rapid.T) c15Case {
		c := c15Case{Comp: pick(t, "comp", []string{"none", "snappy"})}
		n := rapid.IntRange(2, 7).Draw(t, "nsteps")
		for i := 0; i < n; i++ {
			var st c15Step
			if i >= 2 && chance(t, "merge", 35) {
				st = c15Step{Op: "merge"}
				if chance(t, "failmerge", 50) {
					st.FailKind = pick(t, "mfk", []string{"CloseAfter", "CloseAfter", "CloseAfter", "Write", "Close", "Update", "OpenFile", "Read", "Tombstone", "CreateFile"})
					st.FailN = pick(t, "mfn", []int{0, 0, 0, 1, 1, 2, 3, 5})
				}
			} else {
				st = c15Step{Op: "ingest", Rows: rapid.IntRange(1, 4).Draw(t, "rows"), Parts: pick(t, "parts", []int{1, 1, 2, 3}), Group: pick(t, "group", []int{0, 0, 1, 2})}
				if chance(t, "failflush", 35) {
					st.FailKind = pick(t, "ffk", []string{"Write", "Close", "CloseAfter", "CloseAfter", "Update", "CreateFile", "Tombstone"})
					st.FailN = rapid.IntRange(0, 2).Draw(t, "ffn")
				}
			}
			c.Steps = append(c.Steps, st)
		}
		if chance(t, "multigroup", 35) {
			// several merge groups in one Merge (files with disjoint partitions),
			// and the Merge fails in its second or a later group
			c.Steps = nil
			ng := rapid.IntRange(2, 3).Draw(t, "ngroups")
			for g := 0; g < ng; g++ {
				for i := rapid.IntRange(2, 3).Draw(t, "gfiles"); i > 0; i-- {
					c.Steps = append(c.Steps, c15Step{Op: "ingest", Rows: rapid.IntRange(1, 3).Draw(t, "grows"), Parts: pick(t, "gparts", []int{1, 2}), Group: g})
				}
			}
			m := c15Step{Op: "merge"}
			if chance(t, "mgfail", 75) {
				m.FailKind = pick(t, "mgfk", []string{"CreateFile", "Write", "Close", "CloseAfter", "OpenFile", "Read", "CancelCtx:CreateFile", "CancelCtx:Close", "CancelCtx:OpenFile"})
				m.FailN = pick(t, "mgfn", []int{1, 1, 2, 3, 4, 6})
			}
			c.Steps = append(c.Steps, m)
			if chance(t, "mgmore", 50) {
				c.Steps = append(c.Steps, c15Step{Op: "ingest", Rows: 2, Parts: 1, Group: 0}, c15Step{Op: "merge"})
			}
		}
		return c
	})
}

type dirOp struct {
	op       string // create, rename, remove
	name     string
	name2    string
	fid      int // harness-assigned file identity (inode numbers get re-used)
	inMerge  bool
	stepIdx  int
}

type c15Run struct {
	dir string
	mu  sync.Mutex
	// durability model
	durableContent map[int][]byte // file identity -> bytes as of its last fsync
	durableDir     map[string]int // name -> file identity as of the last directory fsync
	fid            map[string]int // current name -> file identity
	nextFid        int
	pending        []dirOp
	// bookkeeping
	acked      map[int]bool
	ingested   map[int]bool
	inMerge    bool
	mergeOut   map[string]bool // .dat names renamed into place during the current Merge
	preMerge   map[string]bool // names present in the directory when the current Merge began
	removed    map[string]bool // names removed (after events) since the last directory fsync
	step       int
	events     int
	images     int
	verdicts   map[string]*Violation // image hash -> verdict (nil = fine)
	viol       *Violation
	violWhere  string
	classes    map[string]int
	cfg        bs.BloomSearchEngineConfig
}

func inoOf(path string) (uint64, bool) {
	fi, err := os.Stat(path)
	if err != nil {
		return 0, false
	}
	if st, ok := fi.Sys().(*syscall.Stat_t); ok {
		return st.Ino, true
	}
	return 0, false
}

func listDir(dir string) map[string]uint64 {
	out := map[string]uint64{}
	entries, _ := os.ReadDir(dir)
	for _, e := range entries {
		if ino, ok := inoOf(filepath.Join(dir, e.Name())); ok {
			out[e.Name()] = ino
		}
	}
	return out
}

// recover runs a fresh store + engine over an image and checks the C15 obligations.
func (r *c15Run) recoverImage(files map[string][]byte) (dups []int, v *Violation) {
	img, err := os.MkdirTemp("", "verif-c15-img-")
	if err != nil {
		infra("tempdir: %v", err)
		return nil, nil
	}
	defer os.RemoveAll(img)
	for name, b := range files {
		if err := os.WriteFile(filepath.Join(img, name), b, 0o600); err != nil {
			infra("write image: %v", err)
			return nil, nil
		}
	}
	fs := bs.NewFileSystemDataStore(img)
	eng, err := bs.NewBloomSearchEngine(r.cfg, fs, fs)
	if err != nil {
		return nil, violf("engine over image: %v", err)
	}
	res, err := eng.Query(context.Background(), nil)
	if err != nil {
		return nil, violf("query over image rejected: %v", err)
	}
	rows, rerr, ok := collectResults(res, 30*time.Second)
	res.Close()
	if !ok {
		return nil, violf("query over the recovered directory did not finish within 30s")
	}
	if rerr != nil {
		return nil, violf("a new engine over the directory lists a file it cannot read completely: %v", rerr)
	}
	seen := map[int]int{}
	for _, row := range rows {
		id, ok := rowID(row)
		if !ok || !r.ingested[id] {
			return nil, violf("a new engine over the directory returns a row that was never ingested: %s", shortJSON(row, 300))
		}
		seen[id]++
	}
	for id := range r.acked {
		if seen[id] == 0 {
			return nil, violf("row id %d was acknowledged before this point but a new engine over the directory does not return it", id)
		}
	}
	for id, n := range seen {
		if n > 1 {
			dups = append(dups, id)
		}
	}
	sort.Ints(dups)
	return dups, nil
}

func imageKey(files map[string][]byte) string {
	names := make([]string, 0, len(files))
	for n := range files {
		names = append(names, n)
	}
	sort.Strings(names)
	parts := []string{}
	for _, n := range names {
		parts = append(parts, n, fmt.Sprint(len(files[n])), fmt.Sprintf("%x", hash64(string(files[n]))))
	}
	return hashStrings(parts...)
}

// judgeImage checks one image; kind is "crash" or "powerloss".
func (r *c15Run) judgeImage(kind, where string, files map[string][]byte, resurrected map[string]bool) {
	if r.viol != nil {
		return
	}
	// only .dat files matter to a directory scan
	img := map[string][]byte{}
	for n, b := range files {
		if strings.HasSuffix(n, ".dat") {
			img[n] = b
		}
	}
	// (the verdict of an image depends on whether a Merge is in progress: the
	// same bytes inside and after a Merge are different situations)
	key := kind + ":" + imageKey(img) + fmt.Sprint(len(r.acked), r.inMerge, r.step)
	if _, done := r.verdicts[key]; done {
		return
	}
	r.images++
	dups, v := r.recoverImage(img)
	r.verdicts[key] = v
	if v != nil {
		v.Msg = fmt.Sprintf("[%s image at %s] %s", kind, where, v.Msg)
		r.viol, r.violWhere = v, where
		return
	}
	if len(dups) == 0 {
		return
	}
	// duplicates: is this one of the two known windows of FileSystemDataStore-as-MetaStore?
	if r.inMerge && len(r.mergeOut) > 0 {
		// The window signature: this merge's published output coexists with source
		// files of the same merge that have not been removed yet. Dropping either
		// the output, or the surviving pre-merge files whose rows it already
		// holds, must make the image fully consistent again.
		without := map[string][]byte{}
		for n, b := range img {
			if !r.mergeOut[n] {
				without[n] = b
			}
		}
		d2, v2 := r.recoverImage(without)
		if !(v2 == nil && len(d2) == 0) {
			without = map[string][]byte{}
			for n, b := range img {
				without[n] = b
			}
			names := make([]string, 0, len(img))
			for n := range img {
				names = append(names, n)
			}
			sort.Strings(names)
			for _, n := range names {
				if !r.preMerge[n] || r.mergeOut[n] {
					continue
				}
				saved := without[n]
				delete(without, n)
				if _, v3 := r.recoverImage(without); v3 != nil {
					without[n] = saved // dropping it loses acknowledged rows: not a redundant source
				}
			}
			d2, v2 = r.recoverImage(without)
		}
		if v2 == nil && len(d2) == 0 {
			const key = "fs-metastore-merge-output-visible-before-sources-removed"
			if isKnown(envProp, key) {
				// listed finding: re-observed, counted, and the search goes on
				Ev.Known(key)
				Ev.Excluded(1)
				return
			}
			r.viol = violKey(key,
				"[crash image at %s] rows %v are returned twice: the merge output %v is already published (visible to a directory scan) while its source files have not been removed yet", where, dups, sortedKeys(r.mergeOut))
			r.violWhere = where
			return
		}
	}
	if kind == "powerloss" && len(resurrected) > 0 {
		without := map[string][]byte{}
		for n, b := range img {
			if !resurrected[n] {
				without[n] = b
			}
		}
		if d2, v2 := r.recoverImage(without); v2 == nil && len(d2) == 0 {
			const key = "fs-metastore-removes-not-fsynced"
			if isKnown(envProp, key) {
				Ev.Known(key)
				Ev.Excluded(1)
				return
			}
			r.viol = violKey(key,
				"[power-loss image at %s] rows %v are returned twice: files %v were removed (merge sources / tombstoned files) without a directory fsync and reappear next to the file that replaced them", where, dups, sortedKeys(resurrected))
			r.violWhere = where
			return
		}
	}
	r.viol = violf("[%s image at %s] rows %v are returned more often than they were ingested", kind, where, dups)
	r.violWhere = where
}


// onEvent is the verif hook callback (runs on the engine's goroutines).
func (r *c15Run) onEvent(ev bs.VerifFSEvent) {
	if !strings.HasPrefix(ev.Path, r.dir) {
		return
	}
	r.mu.Lock()
	defer r.mu.Unlock()
	name := filepath.Base(ev.Path)
	if ev.Phase == "before" {
		r.events++
		where := fmt.Sprintf("step %d, before %s %s", r.step, ev.Op, name)
		inside := ev.Op == "rename" || ev.Op == "remove" || ev.Op == "dirsync" || ev.Op == "fsync"
		if inside {
			r.classes["event-inside-publish/abort/commit"]++
		}
		// (a) crash image: the directory as it is now
		cur := map[string][]byte{}
		for n := range listDir(r.dir) {
			if b, err := os.ReadFile(filepath.Join(r.dir, n)); err == nil {
				cur[n] = b
			}
		}
		r.judgeImage("crash", where, cur, nil)
		// (b) power-loss images: durable directory + every ordered prefix of the pending directory operations
		for k := 0; k <= len(r.pending); k++ {
			dirMap := map[string]int{}
			for n, fid := range r.durableDir {
				dirMap[n] = fid
			}
			for _, op := range r.pending[:k] {
				switch op.op {
				case "create":
					dirMap[op.name] = op.fid
				case "rename":
					delete(dirMap, op.name)
					dirMap[op.name2] = op.fid
				case "remove":
					delete(dirMap, op.name)
				}
			}
			img := map[string][]byte{}
			resurrected := map[string]bool{}
			for n, fid := range dirMap {
				img[n] = r.durableContent[fid]
				if r.removed[n] {
					if _, stillThere := cur[n]; !stillThere {
						resurrected[n] = true
					}
				}
			}
			r.judgeImage("powerloss", fmt.Sprintf("%s (pending directory ops applied: %d of %d)", where, k, len(r.pending)), img, resurrected)
		}
		return
	}
	// "after" events maintain the durability model from the REAL directory state
	switch ev.Op {
	case "reserve", "create-tmp":
		if _, err := os.Stat(ev.Path); err == nil {
			if _, had := r.fid[name]; !had || ev.Op == "create-tmp" || true {
				// a fresh file (O_EXCL create succeeded): new identity, nothing durable yet
				if _, exists := r.fid[name]; !exists {
					r.nextFid++
					r.fid[name] = r.nextFid
					r.pending = append(r.pending, dirOp{op: "create", name: name, fid: r.nextFid})
				}
			}
		}
	case "fsync":
		if fid, ok := r.fid[name]; ok {
			if b, err := os.ReadFile(ev.Path); err == nil {
				r.durableContent[fid] = b
			}
		}
	case "rename":
		if _, err := os.Stat(ev.Path); os.IsNotExist(err) {
			if fid, ok := r.fid[name]; ok {
				name2 := filepath.Base(ev.Path2)
				delete(r.fid, name)
				r.fid[name2] = fid
				r.pending = append(r.pending, dirOp{op: "rename", name: name, name2: name2, fid: fid})
				if r.inMerge {
					r.mergeOut[name2] = true
				}
			}
		}
	case "remove":
		if _, err := os.Stat(ev.Path); os.IsNotExist(err) {
			if _, ok := r.fid[name]; ok {
				delete(r.fid, name)
				r.pending = append(r.pending, dirOp{op: "remove", name: name})
				r.removed[name] = true
			}
		}
	case "dirsync":
		r.durableDir = map[string]int{}
		for n, fid := range r.fid {
			r.durableDir[n] = fid
		}
		r.pending = nil
		r.removed = map[string]bool{}
	}
}

func runC15(c c15Case) *Violation {
	Ev.Eval(1)
	dir, err := os.MkdirTemp("", "verif-c15-")
	if err != nil {
		infra("tempdir: %v", err)
		return nil
	}
	defer os.RemoveAll(dir)
	cfg := bs.DefaultBloomSearchEngineConfig()
	cfg.MaxBufferedTime = time.Hour
	cfg.RowDataCompression = bs.CompressionType(c.Comp)
	cfg.PartitionFunc = func(row map[string]any) string { s, _ := row["p"].(string); return s }
	r := &c15Run{dir: dir, durableContent: map[int][]byte{}, durableDir: map[string]int{}, fid: map[string]int{}, acked: map[int]bool{}, ingested: map[int]bool{},
		mergeOut: map[string]bool{}, removed: map[string]bool{}, verdicts: map[string]*Violation{}, classes: map[string]int{}, cfg: cfg}
	fs := bs.NewFileSystemDataStore(dir)
	tr := NewTrace(fs, fs)
	var failKind string
	failN, failSeen := 0, map[string]int{}
	var fmu sync.Mutex
	failFired := false
	var mergeCancel context.CancelFunc
	tr.Before = func(ci *CallInfo) error {
		fmu.Lock()
		defer fmu.Unlock()
		kind := strings.TrimPrefix(failKind, "CancelCtx:")
		after := false
		if kind == "CloseAfter" {
			// the writer's Close runs to completion (file published, directory
			// fsynced) and THEN reports failure — what a failing directory fsync
			// after the rename looks like to the engine
			kind, after = "Close", true
		}
		if kind == "" || ci.Kind != kind {
			return nil
		}
		n := failSeen[ci.Kind]
		failSeen[ci.Kind]++
		if n == failN {
			failFired = true
			if failKind == "CancelCtx:"+ci.Kind {
				// not a store failure: the Merge's own context is cancelled at this call
				if mergeCancel != nil {
					mergeCancel()
				}
				return nil
			}
			ci.FailAfter = after
			return fmt.Errorf("%w (%s #%d)", errInjected, failKind, n)
		}
		return nil
	}
	eng, err := bs.NewBloomSearchEngine(cfg, tr, tr)
	if err != nil {
		return violf("config rejected: %v", err)
	}
	bs.VerifSetFSCallback(r.onEvent)
	defer bs.VerifSetFSCallback(nil)
	eng.Start()
	ctx := context.Background()
	defer func() {
		sctx, cancel := context.WithTimeout(ctx, 20*time.Second)
		eng.Stop(sctx)
		cancel()
	}()
	next := 0
	mergeSeen, failSeenAny := false, false
	for si, st := range c.Steps {
		r.mu.Lock()
		r.step = si
		r.mu.Unlock()
		fmu.Lock()
		failKind, failN, failSeen = st.FailKind, st.FailN, map[string]int{}
		fmu.Unlock()
		switch st.Op {
		case "ingest":
			var rows []map[string]any
			var ids []int
			for i := 0; i < st.Rows; i++ {
				next++
				rows = append(rows, map[string]any{"id": next, "p": fmt.Sprintf("g%dp%d", st.Group, next%maxInt(st.Parts, 1)), "msg": fmt.Sprintf("row %d of step %d", next, si)})
				ids = append(ids, next)
			}
			r.mu.Lock()
			for _, id := range ids {
				r.ingested[id] = true
			}
			r.mu.Unlock()
			done := make(chan error, 1)
			if err := eng.IngestRows(ctx, rows, done); err != nil {
				return violf("IngestRows: %v", err)
			}
			eng.Flush(ctx)
			select {
			case err := <-done:
				if err == nil {
					r.mu.Lock()
					for _, id := range ids {
						r.acked[id] = true
					}
					r.mu.Unlock()
				}
			case <-time.After(30 * time.Second):
				return violf("batch never answered")
			}
		case "merge":
			mergeSeen = true
			r.mu.Lock()
			r.inMerge = true
			r.mergeOut = map[string]bool{}
			r.preMerge = map[string]bool{}
			for n := range listDir(dir) {
				r.preMerge[n] = true
			}
			r.mu.Unlock()
			mctx, mcancel := context.WithCancel(ctx)
			fmu.Lock()
			mergeCancel = mcancel
			fmu.Unlock()
			eng.Merge(mctx)
			mcancel()
			r.mu.Lock()
			r.inMerge = false
			r.mu.Unlock()
		}
		fmu.Lock()
		if failFired {
			failSeenAny = true
		}
		failKind = ""
		fmu.Unlock()
		r.mu.Lock()
		v := r.viol
		r.mu.Unlock()
		if v != nil {
			break
		}
	}
	// final state: one more look after the last step (crash now / power loss now)
	r.onEvent(bs.VerifFSEvent{Phase: "before", Op: "end-of-history", Path: filepath.Join(dir, "-")})
	r.mu.Lock()
	defer r.mu.Unlock()
	Ev.Add("fs_events", int64(r.events))
	Ev.Add("images_recovered", int64(r.images))
	for k, n := range r.classes {
		Ev.ClassN(k, n)
	}
	if mergeSeen {
		Ev.Class("history-with-merge")
	}
	if failSeenAny {
		Ev.Class("history-with-failed-flush-or-merge")
	}
	if r.viol != nil {
		return r.viol
	}
	if r.classes["event-inside-publish/abort/commit"] > 0 {
		Ev.NonTrivial(jsonKey(c))
		if Ev.WantSample() {
			Ev.Sample(map[string]any{"case": c, "fs_events": r.events, "images_recovered": r.images})
		}
	}
	return nil
}

func TestC15(t *testing.T) {
	Ev.Level = "fault_enumeration"
	Ev.Rule = "case = sequential history of 2-7 steps (ingest+flush of 1-4 rows over 1-3 partitions; Merge; each optionally with a one-shot store failure injected through the tracing wrapper so flushes and merges fail and abort) on a real temp directory with FileSystemDataStore as DataStore and MetaStore. The verif hook reports EVERY filesystem mutation (reserve, create-tmp, write, fsync, close, rename, dirsync, remove) before and after it happens; at every 'before' event the harness recovers (a) the crash image = the directory as it is, and (b) power-loss images = directory entries as of the last directory fsync + each ordered prefix of the directory operations pending since, with file bytes as of each inode's last fsync. Recovery = fresh FileSystemDataStore + engine, match-all query: Err nil (only complete readable files listed), every row acknowledged before the event present, no row never ingested, no row more than once. Images are de-duplicated by content. evaluations = histories; fs_events / images_recovered count the crash points and recoveries. Non-trivial: the history has events inside a publish (fsync/rename/dirsync) or an abort/tombstone/commit (remove); distinct by case."
	Ev.Assumptions = []string{"the durability model is a model, not a filesystem: data is durable as of the inode's last fsync, directory entries as of the last directory fsync, pending directory operations persist in order (prefixes)", "granularity is the hook's events"}
	runChecks(t, "crashpoints", 120, 1500, genC15(), runC15)
}

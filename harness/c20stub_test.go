package harness

import "testing"

func c23FaultPhaseImpl(t *testing.T) {}

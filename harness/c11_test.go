package harness

// C11 — merging preserves stored content and query answers.
// C12 — merge output respects the configured layout limits.
// A case is a generated population (written by several engine configurations
// and the external writer), 1-3 Merge calls under generated merge limits, and a
// query set that is run before and after every Merge.

import (
	"bytes"
	"context"
	"fmt"
	"sort"
	"strings"
	"testing"

	bs "github.com/danthegoodman1/bloomsearch"
	"pgregory.net/rapid"
)

type MergeCase struct {
	Hist      History     `json:"hist"`
	MergeCfgs []EngCfg    `json:"mergecfgs"`
	Queries   []QuerySpec `json:"queries"`
	// FileRel[i] = {a, b, delta}: merge i runs with MaxFileSize = size(file a) +
	// size(file b) + delta, sizes being the files' sums of on-disk block sizes
	// right before that merge (sorted ascending, indices modulo the file count):
	// the limit sits exactly at, or one byte under, what two real files add up to
	FileRel [][3]int `json:"filerel,omitempty"`
	// Prelude[i] = {kind, n} (kind "" = none): before merge i is observed, the
	// same engine instance runs one Merge during which the n-th store call of
	// that kind fails once. Whatever that call returns, the observed Merge that
	// follows on the same engine is judged like any other.
	Prelude []MergePrelude `json:"prelude,omitempty"`
}

type MergePrelude struct {
	Kind string `json:"kind,omitempty"`
	N    int    `json:"n,omitempty"`
}

func genMergeCase() *rapid.Generator[MergeCase] {
	return rapid.Custom(func(t *rapid.T) MergeCase {
		o := mergeHeavyOpts
		o.GroupedParts = chance(t, "grouped", 35)
		h := drawHistory(t, o)
		// strip the trailing merges: the case's own merges run under observation
		for len(h.Steps) > 0 && h.Steps[len(h.Steps)-1].Op == "merge" {
			h.Steps = h.Steps[:len(h.Steps)-1]
		}
		last := h.Cfg
		for _, s := range h.Steps {
			if s.Op == "restart" {
				last = *s.Cfg
			}
		}
		n := rapid.IntRange(1, 3).Draw(t, "nmerges")
		var cfgs []EngCfg
		for i := 0; i < n; i++ {
			c := last
			if chance(t, "newmergecfg", 60) {
				c = mergeFriendly(t, drawCfg(t, h.Cfg.Tokenizer, numFieldPool, true))
				c.MinMax = last.MinMax
				c.Partition = last.Partition
			}
			// tight limits so they bind
			if chance(t, "tightrows", 40) {
				c.RGRows = pick(t, "trows", []int{2, 3, 4, 6})
			}
			if chance(t, "tightbytes", 40) {
				c.RGBytes = pick(t, "tbytes", []int{150, 300, 600, 1200, 2500, 5000})
			}
			if chance(t, "tightfile", 40) {
				c.MaxFileSize = pick(t, "tfile", []int{300, 800, 2000, 5000})
			}
			if chance(t, "tightcount", 40) {
				c.MaxMerge = pick(t, "tcount", []int{2, 3, 4})
			}
			cfgs = append(cfgs, c)
		}
		var rel [][3]int
		if chance(t, "filerel", 35) {
			for range cfgs {
				rel = append(rel, [3]int{rapid.IntRange(0, 5).Draw(t, "rela"), rapid.IntRange(0, 5).Draw(t, "relb"), pick(t, "reldelta", []int{-1, 0, -1, 0, 40})})
			}
		}
		var prel []MergePrelude
		if chance(t, "preludes", 30) {
			for range cfgs {
				pk := pick(t, "prelkind", []string{"", "OpenFile", "OpenFile", "Read", "Write", "Write", "Close", "Update"})
				prel = append(prel, MergePrelude{Kind: pk, N: rapid.IntRange(0, 9).Draw(t, "preln")})
			}
		}
		rows := simulateRows(h)
		pools := buildPools(rows)
		nq := rapid.IntRange(1, 8).Draw(t, "nqueries")
		qs := make([]QuerySpec, nq)
		for i := range qs {
			qp := pools
			if len(rows) > 0 {
				tp := buildPools([]simRow{rows[unif(t, "target", len(rows))]})
				qp.Target = &tp
			}
			qs[i] = drawQuery(t, qp, true)
		}
		return MergeCase{Hist: h, MergeCfgs: cfgs, Queries: qs, FileRel: rel, Prelude: prel}
	})
}

type mergeObsFull struct {
	MergeObs
	RunsBefore []QueryRun
	RunsAfter  []QueryRun
	Err        error
}

func execMergeCase(c MergeCase) (*World, []mergeObsFull, *Violation) {
	w, err := RunHistory(c.Hist)
	if err != nil {
		return nil, nil, violf("history failed on healthy stores: %v", err)
	}
	var obs []mergeObsFull
	var preEng *bs.BloomSearchEngine
	var preTr *Trace
	for mi, cfg := range c.MergeCfgs {
		tr := NewTrace(w.Data, w.Meta)
		preEng = nil
		if mi < len(c.Prelude) && c.Prelude[mi].Kind != "" && !(mi < len(c.FileRel)) {
			pe, err := w.NewEngine(cfg, tr, tr)
			if err != nil {
				w.Close()
				return nil, nil, violf("engine construction failed: %v", err)
			}
			ctl := NewStoreCtl(StoreScript{FailKind: []string{c.Prelude[mi].Kind}, FailN: []int{c.Prelude[mi].N}})
			tr.Before = ctl.Hook
			_, perr := pe.Merge(context.Background())
			tr.Before = nil
			if ctl.FiredCount() > 0 {
				Ev.Class("merge:preceded-by-a-faulted-merge-on-the-same-engine")
				if perr != nil {
					Ev.Class("merge:preceded-by-a-failed-merge-on-the-same-engine")
				}
			}
			preEng, preTr = pe, tr
		}
		before, err := ReadWorld(w.Data, w.Meta)
		if err != nil {
			w.Close()
			return nil, nil, violf("world unreadable before merge: %v", err)
		}
		if mi < len(c.FileRel) && len(before) >= 2 {
			var sizes []int
			for _, f := range before {
				t := 0
				for _, b := range f.Blocks {
					t += b.Meta.OnDiskSize()
				}
				sizes = append(sizes, t)
			}
			sort.Ints(sizes)
			r := c.FileRel[mi]
			a, b := r[0]%len(sizes), r[1]%len(sizes)
			if a == b {
				b = (b + 1) % len(sizes)
			}
			if lim := sizes[a] + sizes[b] + r[2]; lim >= 1 {
				cfg.MaxFileSize = lim
				Ev.Class("merge:MaxFileSize-set-at-a-real-pair-boundary")
			}
		}
		var eng *bs.BloomSearchEngine
		if preEng != nil {
			eng, tr = preEng, preTr
		} else if eng, err = w.NewEngine(cfg, tr, tr); err != nil {
			w.Close()
			return nil, nil, violf("engine construction failed: %v", err)
		}
		r1, v := runQueries(eng, tr, c.Queries)
		if v != nil {
			w.Close()
			return nil, nil, v
		}
		stats, merr := eng.Merge(context.Background())
		after, err := ReadWorld(w.Data, w.Meta)
		if err != nil {
			w.Close()
			return nil, nil, violf("world unreadable after merge (merge err=%v): %v", merr, err)
		}
		r2, v := runQueries(eng, tr, c.Queries)
		if v != nil {
			w.Close()
			return nil, nil, v
		}
		obs = append(obs, mergeObsFull{MergeObs: MergeObs{Cfg: cfg, Before: before, After: after, Stats: stats, Combined: countCombined(before, after)}, RunsBefore: r1, RunsAfter: r2, Err: merr})
	}
	return w, obs, nil
}

func rowBytesByID(files []*FileInfo) (map[int][]byte, map[int]int, map[int]*BlockInfo) {
	rows := map[int][]byte{}
	counts := map[int]int{}
	where := map[int]*BlockInfo{}
	for _, f := range files {
		for _, b := range f.Blocks {
			for i, id := range b.IDs {
				rows[id] = b.Rows[i]
				counts[id]++
				where[id] = b
			}
		}
	}
	return rows, counts, where
}

func keySet(b *bs.DataBlockMetadata) string {
	return strings.Join(sortedKeys(b.MinMaxIndexes), ",")
}

func normComp(c bs.CompressionType) string {
	if c == "" {
		return "none"
	}
	return string(c)
}

// mergeShape classifies what a merge did.
type mergeShape struct {
	removed, added   []*FileInfo
	keysetMismatch   bool
	sameFileCombined bool
	mixedCompression bool
	limitBinding     bool
	copiedAndMerged  bool
}

func analyseMerge(m MergeObs) mergeShape {
	var sh mergeShape
	afterPtr := map[string]*FileInfo{}
	for _, f := range m.After {
		afterPtr[f.Ptr] = f
	}
	beforePtr := map[string]*FileInfo{}
	for _, f := range m.Before {
		beforePtr[f.Ptr] = f
		if afterPtr[f.Ptr] == nil {
			sh.removed = append(sh.removed, f)
		}
	}
	for _, f := range m.After {
		if beforePtr[f.Ptr] == nil {
			sh.added = append(sh.added, f)
		}
	}
	_, _, whereAfter := rowBytesByID(m.After)
	comps := map[string]bool{}
	type bk struct{ part, keys string }
	groups := map[bk][]*BlockInfo{}
	partKeys := map[string]map[string]bool{}
	for _, f := range sh.removed {
		for _, b := range f.Blocks {
			comps[normComp(b.Meta.Compression)] = true
			k := bk{b.Meta.PartitionID, keySet(&b.Meta)}
			groups[k] = append(groups[k], b)
			if partKeys[k.part] == nil {
				partKeys[k.part] = map[string]bool{}
			}
			partKeys[k.part][k.keys] = true
		}
	}
	sh.mixedCompression = len(comps) >= 2
	for _, ks := range partKeys {
		if len(ks) >= 2 {
			sh.keysetMismatch = true
		}
	}
	// limit binding: two same-bucket source blocks of one merge output file that ended up in different output blocks
	for _, bl := range groups {
		outs := map[string]map[string]bool{} // output file -> set of output blocks
		for _, b := range bl {
			if len(b.IDs) == 0 {
				continue
			}
			ob := whereAfter[b.IDs[0]]
			if ob == nil {
				continue
			}
			if outs[ob.File] == nil {
				outs[ob.File] = map[string]bool{}
			}
			outs[ob.File][blockKey(ob)] = true
		}
		for _, s := range outs {
			if len(s) >= 2 {
				sh.limitBinding = true
			}
		}
	}
	// same-file blocks combined / copied+merged in one output
	src := map[int]*BlockInfo{}
	for _, f := range m.Before {
		for _, b := range f.Blocks {
			for _, id := range b.IDs {
				src[id] = b
			}
		}
	}
	for _, f := range sh.added {
		copied, merged := false, false
		for _, b := range f.Blocks {
			srcs := map[string]*BlockInfo{}
			for _, id := range b.IDs {
				if s := src[id]; s != nil {
					srcs[blockKey(s)] = s
				}
			}
			if len(srcs) >= 2 {
				merged = true
				files := map[string]int{}
				for _, s := range srcs {
					files[s.File]++
				}
				for _, n := range files {
					if n >= 2 {
						sh.sameFileCombined = true
					}
				}
			} else {
				copied = true
			}
		}
		if copied && merged {
			sh.copiedAndMerged = true
		}
	}
	return sh
}

func judgeC11(w *World, c MergeCase, obs []mergeObsFull) *Violation {
	for mi, m := range obs {
		Ev.Eval(1)
		if m.Err != nil {
			return violf("merge %d failed on healthy stores: %v", mi, m.Err)
		}
		sh := analyseMerge(m.MergeObs)
		rb, cb, _ := rowBytesByID(m.Before)
		ra, ca, whereAfter := rowBytesByID(m.After)
		_, _, whereBefore := rowBytesByID(m.Before)
		// (a) the multiset of stored rows is unchanged
		for id, n := range cb {
			if ca[id] != n {
				return violf("merge %d changed how often row id %d is stored: %d before, %d after\nrow: %s", mi, id, n, ca[id], rb[id])
			}
			if !bytes.Equal(rb[id], ra[id]) {
				return violf("merge %d changed the stored bytes of row id %d:\nbefore %s\nafter  %s", mi, id, rb[id], ra[id])
			}
		}
		for id, n := range ca {
			if cb[id] != n {
				return violf("merge %d stores row id %d %d times, %d before", mi, id, n, cb[id])
			}
		}
		// (b) partition kept, ranges still cover
		for id, bb := range whereBefore {
			ab := whereAfter[id]
			if ab.Meta.PartitionID != bb.Meta.PartitionID {
				return violf("merge %d moved row id %d from partition %q to a block of partition %q", mi, id, bb.Meta.PartitionID, ab.Meta.PartitionID)
			}
			r := w.Rows[id]
			if r == nil {
				continue
			}
			for k := range bb.Meta.MinMaxIndexes {
				mv, ok := getMember(r.Val, k)
				if !ok {
					continue
				}
				lo, hi, isNum := refFloorCeil(mv)
				if !isNum {
					continue
				}
				before := bb.Meta.MinMaxIndexes[k]
				if before.Min > lo || before.Max < hi {
					continue // the source block did not index this row's value (e.g. key configured later)
				}
				rng, has := ab.Meta.MinMaxIndexes[k]
				if !has {
					return violf("merge %d: row id %d (value %s=%s) was covered by its block's %q range [%d,%d]; its new block has no such key", mi, id, k, valString(mv), k, before.Min, before.Max)
				}
				if rng.Min > lo || rng.Max < hi {
					return violf("merge %d: row id %d has %s=%s but its new block's range is [%d,%d] (source block had [%d,%d])", mi, id, k, valString(mv), rng.Min, rng.Max, before.Min, before.Max)
				}
			}
		}
		// (c) queries
		for qi := range c.Queries {
			b, a := m.RunsBefore[qi], m.RunsAfter[qi]
			if b.QueryErr != nil || a.QueryErr != nil {
				if (b.QueryErr == nil) != (a.QueryErr == nil) {
					return violf("merge %d: query %d accepted before and rejected after (or vice versa): %v / %v", mi, qi, b.QueryErr, a.QueryErr)
				}
				continue
			}
			if b.Err != nil || a.Err != nil {
				return violf("merge %d: query %d reports an error on healthy stores: before=%v after=%v", mi, qi, b.Err, a.Err)
			}
			bc, ac := map[int]int{}, map[int]int{}
			for _, id := range b.IDs {
				bc[id]++
			}
			for _, id := range a.IDs {
				ac[id]++
			}
			if !hasPrefilter(c.Queries[qi]) {
				for id, n := range bc {
					if ac[id] != n {
						return violf("merge %d changed the answer of query %d (no prefilter): row id %d returned %d times before, %d after\nquery: %s\nrow: %s", mi, qi, id, n, ac[id], shortJSON(c.Queries[qi], 1500), rb[id])
					}
				}
				for id, n := range ac {
					if bc[id] != n {
						return violf("merge %d changed the answer of query %d (no prefilter): row id %d returned %d times before, %d after\nquery: %s", mi, qi, id, bc[id], n, shortJSON(c.Queries[qi], 1500))
					}
				}
			} else {
				for id, n := range bc {
					if ac[id] < n {
						return violf("merge %d: prefilter query %d lost row id %d (returned before the merge, not after)\nquery: %s\nrow: %s\nblock after: partition %q minmax %v", mi, qi, id, shortJSON(c.Queries[qi], 1500), rb[id], whereAfter[id].Meta.PartitionID, whereAfter[id].Meta.MinMaxIndexes)
					}
				}
				q := c.Queries[qi].Query()
				if q == nil || q.Regex == nil || regexProblem(q.Regex.Expression) == "" {
					for id, n := range ac {
						r := w.Rows[id]
						if r == nil || n > 1 {
							return violf("merge %d: prefilter query %d returned row id %d %d times / unknown row", mi, qi, id, n)
						}
						if !r.Unknown && !rowMatches(r.Sem, q) {
							return violf("merge %d: prefilter query %d returns row id %d which does not match its bloom/regex expression\nquery: %s\nrow: %s", mi, qi, id, shortJSON(c.Queries[qi], 1500), r.JSON)
						}
					}
				}
			}
		}
		// classification / non-triviality
		if m.Combined > 0 {
			Ev.Class("merge:combined-blocks")
		}
		if len(sh.removed) > 0 {
			Ev.Class("merge:did-something")
		}
		flags := []string{}
		if sh.keysetMismatch {
			flags = append(flags, "keyset-mismatch-in-partition")
		}
		if sh.limitBinding {
			flags = append(flags, "limit-hit-mid-bucket")
		}
		if sh.sameFileCombined {
			flags = append(flags, "same-file-blocks-combined")
		}
		if sh.mixedCompression {
			flags = append(flags, "mixed-compression")
		}
		if sh.copiedAndMerged {
			flags = append(flags, "copied-and-merged-in-one-output")
		}
		for _, f := range flags {
			Ev.Class("merge:" + f)
		}
		if m.Combined > 0 && len(flags) > 0 {
			Ev.NonTrivial(hashStrings(layoutOf(m.Before), layoutOf(m.After), jsonKey(m.Cfg), strings.Join(flags, "|")))
			if Ev.WantSample() {
				Ev.Sample(map[string]any{"merge_cfg": m.Cfg, "layout_before": layoutOf(m.Before), "layout_after": layoutOf(m.After), "flags": flags, "queries": len(c.Queries)})
			}
		}
	}
	return nil
}

func layoutOf(files []*FileInfo) string {
	var sb strings.Builder
	for _, f := range files {
		sb.WriteString("[")
		for _, b := range f.Blocks {
			fmt.Fprintf(&sb, "%d:%s:%s:%s ", len(b.IDs), b.Meta.PartitionID, keySet(&b.Meta), normComp(b.Meta.Compression))
		}
		sb.WriteString("]")
	}
	return sb.String()
}

func judgeC12(w *World, c MergeCase, obs []mergeObsFull) *Violation {
	for mi, m := range obs {
		Ev.Eval(1)
		if m.Err != nil {
			return violf("merge %d failed on healthy stores: %v", mi, m.Err)
		}
		sh := analyseMerge(m.MergeObs)
		cfg := m.Cfg
		src := map[int]*BlockInfo{}
		for _, f := range m.Before {
			for _, b := range f.Blocks {
				for _, id := range b.IDs {
					src[id] = b
				}
			}
		}
		srcFile := map[string]*FileInfo{}
		for _, f := range m.Before {
			srcFile[f.Ptr] = f
		}
		if len(sh.removed) > cfg.MaxMerge {
			return violf("merge %d removed %d source files, MaxFilesToMergePerOperation=%d", mi, len(sh.removed), cfg.MaxMerge)
		}
		binding := sh.limitBinding || len(sh.removed) == cfg.MaxMerge
		for _, f := range sh.added {
			files := map[string]bool{}
			for _, b := range f.Blocks {
				srcs := map[string]*BlockInfo{}
				bytesTotal := 0
				for i, id := range b.IDs {
					if s := src[id]; s != nil {
						srcs[blockKey(s)] = s
						files[s.File] = true
					}
					bytesTotal += len(b.Rows[i]) + 4
				}
				if len(srcs) < 2 {
					continue
				}
				if len(b.IDs) > cfg.RGRows {
					return violf("merge %d: combined block holds %d rows, MaxRowGroupRows=%d (sources: %s)", mi, len(b.IDs), cfg.RGRows, strings.Join(sortedKeys(srcs), " "))
				}
				if bytesTotal > cfg.RGBytes {
					return violf("merge %d: combined block holds %d uncompressed bytes, MaxRowGroupBytes=%d (sources: %s)", mi, bytesTotal, cfg.RGBytes, strings.Join(sortedKeys(srcs), " "))
				}
				if len(b.IDs) == cfg.RGRows || bytesTotal == cfg.RGBytes {
					binding = true
				}
				parts, keys := map[string]bool{}, map[string]bool{}
				for _, s := range srcs {
					parts[s.Meta.PartitionID] = true
					keys[keySet(&s.Meta)] = true
				}
				if len(parts) > 1 {
					return violf("merge %d: combined block mixes partitions %v", mi, sortedKeys(parts))
				}
				if len(keys) > 1 {
					return violf("merge %d: combined block mixes source blocks with different minmax key sets %v", mi, sortedKeys(keys))
				}
			}
			total := 0
			for fp := range files {
				for _, b := range srcFile[fp].Blocks {
					total += b.Meta.OnDiskSize()
				}
			}
			if len(files) >= 2 && total > cfg.MaxFileSize {
				return violf("merge %d: output file %s was merged from %d files totalling %d bytes (sum of on-disk block sizes), MaxFileSize=%d", mi, f.Ptr, len(files), total, cfg.MaxFileSize)
			}
		}
		// a file that shared a bucket with a removed file but stayed: file-level limit was binding
		removedBuckets := map[string]bool{}
		for _, f := range sh.removed {
			for _, b := range f.Blocks {
				removedBuckets[b.Meta.PartitionID+"|"+keySet(&b.Meta)] = true
			}
		}
		for _, f := range m.After {
			if srcFile[f.Ptr] == nil {
				continue
			}
			for _, b := range f.Blocks {
				if removedBuckets[b.Meta.PartitionID+"|"+keySet(&b.Meta)] {
					binding = true
				}
			}
		}
		if len(sh.removed) > 0 {
			Ev.Class("merge:did-something")
		}
		if m.Combined > 0 {
			Ev.Class("merge:combined-blocks")
		}
		if binding {
			Ev.Class("merge:limit-binding")
			if len(sh.removed) > 0 {
				Ev.NonTrivial(hashStrings(layoutOf(m.Before), layoutOf(m.After), jsonKey(cfg)))
				if Ev.WantSample() {
					Ev.Sample(map[string]any{"merge_cfg": cfg, "layout_before": layoutOf(m.Before), "layout_after": layoutOf(m.After), "removed_files": len(sh.removed)})
				}
			}
		}
	}
	return nil
}

func runMergeProperty(judge func(*World, MergeCase, []mergeObsFull) *Violation) func(MergeCase) *Violation {
	return func(c MergeCase) *Violation {
		w, obs, v := execMergeCase(c)
		if v != nil {
			return v
		}
		defer w.Close()
		Ev.Class("case:tokenizer=" + c.Hist.Cfg.Tokenizer)
		Ev.Class("case:stores=" + c.Hist.Meta + "/" + c.Hist.Data)
		return judge(w, c, obs)
	}
}

func TestC11(t *testing.T) {
	Ev.Rule = "case = population written by generated histories (several engine configurations via restarts: compression, FPR, row-group limits, partition function, minmax key sets; external-writer files; earlier merges) + 1-3 Merge calls under generated merge limits + up to 8 queries run before and after every Merge. Oracle: row multiset (bytes by unique id) unchanged; partition kept; new block ranges cover each row's indexed values (math/big floor/ceil); no-prefilter answers identical; prefilter answers a superset containing only rows matching bloom+regex (independent oracle). Non-trivial: the Merge combined >=2 blocks AND >=1 of {key-set mismatch inside a partition, limit hit mid-bucket, same-file blocks combined, mixed compression, copied+merged blocks in one output}; distinct by hash(layout before, layout after, merge config, flags)."
	Ev.Assumptions = []string{"stores are healthy (fault cases belong to C13)", "tokenizer fixed within a history"}
	runChecks(t, "merge", 200, 24000, genMergeCase(), runMergeProperty(judgeC11))
}

func TestC12(t *testing.T) {
	Ev.Rule = "same generated populations and merges as C11. Oracle (provenance from unique row ids): every output block with rows from >=2 source blocks has rows <= MaxRowGroupRows, sum(len+4) <= MaxRowGroupBytes, one partition, equal source minmax key sets; files removed by one Merge <= MaxFilesToMergePerOperation; for every output file merged from >=2 files the sum of the source files' on-disk block sizes <= MaxFileSize. Non-trivial: the merge removed >=1 file and some limit was binding (same-bucket blocks left in different output blocks, a block exactly at a limit, file-count limit reached, or a same-bucket file left unmerged); distinct by hash(layouts, merge config)."
	Ev.Assumptions = []string{"file size is measured as the sum of on-disk block sizes (<= real file size), so the bound holds under either reading of 'total bytes'"}
	runChecks(t, "merge", 200, 24000, genMergeCase(), runMergeProperty(judgeC12))
}

var _ = sort.Ints

//go:build verif

package harness

// C16 — FileSystemDataStore behaves like its specification.
// Model-based: generated sequences of CreateFile (names forced from a 3-name
// pool through the verif hook), chunked Write, Close, Abort, TombstoneFile,
// OpenFile and directory scans over up to 4 simultaneously open writers, plus
// parallel CreateFile bursts; after every operation the directory is compared
// with a model map path -> {open, closed(bytes), gone}.

import (
	"bytes"
	"context"
	"fmt"
	"io"
	"os"
	"path/filepath"
	"sort"
	"strings"
	"sync"
	"testing"

	bs "github.com/danthegoodman1/bloomsearch"
	"pgregory.net/rapid"
)

type c16Op struct {
	Op      string `json:"op"` // create write close abort tombstone open scan burst
	Slot    int    `json:"slot,omitempty"`
	Draws   []int  `json:"draws,omitempty"`   // name-pool indices the next CreateFile attempts draw (then fresh names)
	Payload int    `json:"payload,omitempty"` // 0..2 valid bloom files, 3 garbage, 4 empty, 5-6 large (70 KB, 300 KB)
	Chunk   int    `json:"chunk,omitempty"`   // per-mille of the remaining payload to write
	Target  int    `json:"target,omitempty"`  // index into the pointer history (mod its length)
	N       int    `json:"n,omitempty"`       // burst size
	Seq     []string `json:"seq,omitempty"`   // redundant: further calls on a writer whose Close already succeeded
}

type c16Case struct {
	Ops []c16Op `json:"ops"`
	// Misuse: TombstoneFile may also hit a pointer whose writer is still open
	// ("any sequence of calls"). The writer is then doomed: its Close is expected
	// to fail and it is aborted, as the engine does after a failed Close. While a
	// doomed writer is open its name is not forced on another CreateFile.
	Misuse bool `json:"misuse,omitempty"`
	// Root: the store's root directory below the case's temp dir (the root is
	// whatever path the user configured: its components may themselves look like
	// the store's own file names)
	Root string `json:"root,omitempty"`
}

var c16Names = []string{"bloom-A", "bloom-B", "bloom-C"}

func genC16() *rapid.Generator[c16Case] {
	return rapid.Custom(func(t *rapid.T) c16Case {
		n := rapid.IntRange(3, 25).Draw(t, "nops")
		var c c16Case
		c.Misuse = chance(t, "misuse", 25)
		if chance(t, "oddroot", 35) {
			c.Root = pick(t, "root", []string{"index.data", "backup.dat/store", "x.dat", "old.tmp/a", "a.dat.tmp", ".dat", "d.tmp.dat/e"})
		}
		if c.Misuse && rapid.Bool().Draw(t, "misuseprefix") {
			// a writer whose pointer is tombstoned mid-write, then closed (the Close
			// fails and the writer is aborted), followed by ordinary traffic
			c.Ops = append(c.Ops,
				c16Op{Op: "create", Slot: 0, Payload: unif(t, "mpayload", 4)},
				c16Op{Op: "write", Slot: 0, Chunk: pick(t, "mchunk", []int{500, 100, 1000})},
				c16Op{Op: "tombstone", Target: 0},
				c16Op{Op: "close", Slot: 0},
				c16Op{Op: "create", Slot: 1, Payload: 0}, c16Op{Op: "create", Slot: 2, Payload: 1},
				c16Op{Op: "write", Slot: 1, Chunk: 300}, c16Op{Op: "write", Slot: 2, Chunk: 300},
				c16Op{Op: "write", Slot: 1, Chunk: 1000}, c16Op{Op: "write", Slot: 2, Chunk: 1000},
				c16Op{Op: "close", Slot: 1}, c16Op{Op: "close", Slot: 2})
		}
		for i := 0; i < n; i++ {
			k := unif(t, "op", 22)
			switch {
			case k >= 20:
				// a Close that fails before publishing (its ".tmp" vanished: a reaper,
				// a sick disk): the owner cleans up later ("abort"), other writers run
				// in between
				c.Ops = append(c.Ops, c16Op{Op: "failclose", Slot: unif(t, "slot", 4)})
			case k < 5:
				op := c16Op{Op: "create", Slot: unif(t, "slot", 4), Payload: unif(t, "payload", 7)}
				for j := rapid.IntRange(0, 3).Draw(t, "ndraws"); j > 0; j-- {
					op.Draws = append(op.Draws, unif(t, "draw", 3))
				}
				c.Ops = append(c.Ops, op)
			case k < 9:
				c.Ops = append(c.Ops, c16Op{Op: "write", Slot: unif(t, "slot", 4), Chunk: pick(t, "chunk", []int{1000, 500, 100, 1, 0, 2, 1000})})
			case k < 12:
				c.Ops = append(c.Ops, c16Op{Op: "close", Slot: unif(t, "slot", 4)})
			case k < 14:
				c.Ops = append(c.Ops, c16Op{Op: "abort", Slot: unif(t, "slot", 4)})
			case k < 16:
				c.Ops = append(c.Ops, c16Op{Op: "tombstone", Target: rapid.IntRange(0, 30).Draw(t, "target")})
			case k < 17:
				c.Ops = append(c.Ops, c16Op{Op: "open", Target: rapid.IntRange(0, 30).Draw(t, "target")})
			case k < 18:
				c.Ops = append(c.Ops, c16Op{Op: "scan"})
			case k < 19:
				// further calls on a writer whose Close succeeded: documented as
				// harmless (second Close errors, Abort after a successful Close is a no-op)
				op := c16Op{Op: "redundant", Target: rapid.IntRange(0, 30).Draw(t, "rtarget")}
				for j := rapid.IntRange(1, 3).Draw(t, "nseq"); j > 0; j-- {
					op.Seq = append(op.Seq, pick(t, "rseq", []string{"close", "abort", "abort", "write"}))
				}
				c.Ops = append(c.Ops, op)
			default:
				op := c16Op{Op: "burst", N: rapid.IntRange(2, 6).Draw(t, "burst")}
				for j := rapid.IntRange(0, 4).Draw(t, "ndraws"); j > 0; j-- {
					op.Draws = append(op.Draws, unif(t, "draw", 3))
				}
				c.Ops = append(c.Ops, op)
			}
		}
		return c
	})
}

var (
	c16PayloadOnce sync.Once
	c16Payloads    [][]byte
	c16Valid       []bool
)

func c16GetPayloads() ([][]byte, []bool) {
	c16PayloadOnce.Do(func() {
		for i := 0; i < 3; i++ {
			c := c19Case{Comp: []string{"none", "snappy", "zstd"}[i], Parts: 1 + i}
			for j := 0; j < 2+i; j++ {
				c.Rows = append(c.Rows, VObj(kv("msg", VStr(fmt.Sprintf("payload %d row %d", i, j)))))
			}
			f, v := buildValidFile(c, NewMemDataStore(false), bs.NewMemoryMetaStore(), 1+100*i)
			if v != nil {
				panic(v.Msg)
			}
			c16Payloads = append(c16Payloads, f.raw)
			c16Valid = append(c16Valid, true)
		}
		c16Payloads = append(c16Payloads, bytes.Repeat([]byte("garbage-"), 40), []byte{})
		c16Valid = append(c16Valid, false, false)
		// large payloads (position-dependent bytes): a small first chunk followed
		// by chunks of tens or hundreds of KiB
		for _, n := range []int{70000, 300000} {
			big := make([]byte, n)
			for i := range big {
				big[i] = byte(i*7 + i>>8)
			}
			c16Payloads = append(c16Payloads, big)
			c16Valid = append(c16Valid, false)
		}
	})
	return c16Payloads, c16Valid
}

type c16Writer struct {
	w       io.WriteCloser
	path    string
	inc     int
	payload int
	written []byte
	doomed  bool
	closeFailed bool // Close returned an error; Abort + TombstoneFile still to come
}

type c16File struct {
	state string // open, closed, gone
	inc   int    // incarnation: a path can be handed out again after abort/tombstone
	data  []byte
	valid bool // closed with the complete bytes of a valid bloom file
}

type c16Ptr struct {
	path string
	inc  int
}

func runC16(c c16Case) *Violation {
	Ev.Eval(1)
	payloads, validPayload := c16GetPayloads()
	dir, err := os.MkdirTemp("", "verif-c16-")
	if err != nil {
		infra("tempdir: %v", err)
		return nil
	}
	defer os.RemoveAll(dir)
	if c.Root != "" {
		dir = filepath.Join(dir, filepath.FromSlash(c.Root))
		if err := os.MkdirAll(dir, 0o755); err != nil {
			infra("mkdir: %v", err)
			return nil
		}
		Ev.Class("root-directory-path-contains-.dat-or-.tmp")
	}
	fs := bs.NewFileSystemDataStore(dir)
	var drawMu sync.Mutex
	var queue []string
	fresh := 0
	bs.VerifSetFileNameDraw(fs, func() string {
		drawMu.Lock()
		defer drawMu.Unlock()
		if len(queue) > 0 {
			n := queue[0]
			queue = queue[1:]
			return n
		}
		fresh++
		return fmt.Sprintf("bloom-fresh-%d", fresh)
	})
	doomedNames := map[string]bool{} // base names of open writers whose pointer was tombstoned (misuse mode)
	setDraws := func(idx []int) {
		drawMu.Lock()
		queue = nil
		for _, i := range idx {
			if n := c16Names[i%len(c16Names)]; !doomedNames[n] {
				queue = append(queue, n)
			}
		}
		drawMu.Unlock()
	}
	ctx := context.Background()
	model := map[string]*c16File{} // path -> current incarnation
	var history []c16Ptr           // every pointer ever returned, with its incarnation
	incs := 0
	slots := make([]*c16Writer, 4)
	collided := false

	verify := func(after string) *Violation {
		entries, err := os.ReadDir(dir)
		if err != nil {
			return violf("readdir: %v", err)
		}
		onDisk := map[string][]byte{}
		for _, e := range entries {
			b, err := os.ReadFile(filepath.Join(dir, e.Name()))
			if err != nil {
				return violf("read %s: %v", e.Name(), err)
			}
			onDisk[filepath.Join(dir, e.Name())] = b
		}
		// non-empty .dat files == closed files, exact bytes
		for p, b := range onDisk {
			if strings.HasSuffix(p, ".dat") && len(b) > 0 {
				m := model[p]
				if m == nil || m.state != "closed" {
					st := "unknown to the model"
					if m != nil {
						st = m.state
					}
					return violf("after %s: %s is a non-empty published file but its writer state is %q (only files whose Close succeeded and that were not tombstoned may be visible)", after, filepath.Base(p), st)
				}
			}
		}
		for p, m := range model {
			switch m.state {
			case "closed":
				b, ok := onDisk[p]
				if !ok {
					return violf("after %s: closed file %s disappeared", after, filepath.Base(p))
				}
				if !bytes.Equal(b, m.data) {
					return violf("after %s: closed file %s holds %d bytes that differ from the %d bytes written to it", after, filepath.Base(p), len(b), len(m.data))
				}
			case "open":
				if b, ok := onDisk[p]; ok && len(b) > 0 {
					return violf("after %s: %s is visible with %d bytes while its writer is still open", after, filepath.Base(p), len(b))
				}
			}
		}
		return nil
	}
	scan := func(after string) *Violation {
		got := map[string]bool{}
		for f, err := range fs.GetMaybeFilesForQuery(ctx, nil) {
			if err != nil {
				return violf("scan error: %v", err)
			}
			got[string(f.PointerBytes)] = true
		}
		want := map[string]bool{}
		for p, m := range model {
			if m.state == "closed" && m.valid {
				want[p] = true
			}
		}
		for p := range want {
			if !got[p] {
				return violf("after %s: directory scan does not list the closed valid file %s", after, filepath.Base(p))
			}
		}
		for p := range got {
			if !want[p] {
				return violf("after %s: directory scan lists %s, which is not a closed, untombstoned valid file", after, filepath.Base(p))
			}
		}
		return nil
	}

	var closedWriters []*c16Writer
	for oi, op := range c.Ops {
		desc := fmt.Sprintf("op %d %s", oi, jsonKey(op))
		switch op.Op {
		case "create":
			if slots[op.Slot] != nil {
				continue
			}
			setDraws(op.Draws)
			w, ptr, err := fs.CreateFile(ctx)
			if err != nil {
				return violf("%s: CreateFile failed: %v", desc, err)
			}
			p := string(ptr)
			if m := model[p]; m != nil && m.state != "gone" {
				return violf("%s: CreateFile returned pointer %s which belongs to a live (%s) file", desc, filepath.Base(p), m.state)
			}
			for _, d := range op.Draws {
				if m := model[filepath.Join(dir, c16Names[d%3]+".dat")]; m != nil && m.state != "gone" {
					collided = true
				}
			}
			incs++
			model[p] = &c16File{state: "open", inc: incs}
			history = append(history, c16Ptr{p, incs})
			slots[op.Slot] = &c16Writer{w: w, path: p, inc: incs, payload: op.Payload % len(payloads)}
		case "failclose":
			s := slots[op.Slot]
			if s == nil || s.doomed || s.closeFailed {
				continue
			}
			os.Remove(strings.TrimSuffix(s.path, ".dat") + ".tmp")
			if err := s.w.Close(); err != nil {
				// not published; the pointer stays the writer's (reserved) until its
				// owner aborts and tombstones it
				s.closeFailed = true
				Ev.Class("close-failed-before-publish(cleanup-later)")
			} else {
				// Close claims success: then the file must hold what was written
				slots[op.Slot] = nil
				model[s.path] = &c16File{state: "closed", inc: s.inc, data: append([]byte(nil), s.written...), valid: validPayload[s.payload] && len(s.written) == len(payloads[s.payload])}
			}
		case "write":
			s := slots[op.Slot]
			if s == nil || s.closeFailed {
				continue
			}
			rest := payloads[s.payload][len(s.written):]
			n := len(rest) * op.Chunk / 1000
			if op.Chunk > 0 && n == 0 && len(rest) > 0 {
				n = 1
			}
			chunk := rest[:n]
			if k, err := s.w.Write(chunk); err != nil || k != len(chunk) {
				return violf("%s: Write returned (%d, %v)", desc, k, err)
			}
			s.written = append(s.written, chunk...)
		case "close":
			s := slots[op.Slot]
			if s == nil || s.closeFailed {
				continue
			}
			slots[op.Slot] = nil
			if s.doomed {
				delete(doomedNames, strings.TrimSuffix(filepath.Base(s.path), ".dat"))
			}
			if err := s.w.Close(); err != nil {
				// Close is allowed to fail (e.g. the reservation was removed by a
				// colliding writer's cleanup); the file is then not listed
				model[s.path] = &c16File{state: "gone", inc: s.inc}
				if ab, ok := s.w.(interface{ Abort() error }); ok {
					ab.Abort()
				}
				fs.TombstoneFile(ctx, []byte(s.path))
				Ev.Class("close-failed")
				continue
			}
			model[s.path] = &c16File{state: "closed", inc: s.inc, data: append([]byte(nil), s.written...), valid: validPayload[s.payload] && len(s.written) == len(payloads[s.payload])}
			closedWriters = append(closedWriters, s)
		case "abort":
			s := slots[op.Slot]
			if s == nil {
				continue
			}
			slots[op.Slot] = nil
			if s.doomed {
				delete(doomedNames, strings.TrimSuffix(filepath.Base(s.path), ".dat"))
			}
			if ab, ok := s.w.(interface{ Abort() error }); ok {
				if err := ab.Abort(); err != nil {
					return violf("%s: Abort failed: %v", desc, err)
				}
			} else {
				return violf("FileSystemDataStore writer does not implement Abort")
			}
			model[s.path].state = "gone"
			if s.closeFailed {
				// the owner's cleanup after a failed Close: Abort, then TombstoneFile
				fs.TombstoneFile(ctx, []byte(s.path))
			}
			// the engine tombstones the pointer right after an abort, possibly
			// later: modelled by the separate tombstone op on the history
		case "tombstone":
			if len(history) == 0 {
				continue
			}
			hp := history[op.Target%len(history)]
			p := hp.path
			// contract: only after THAT pointer's writer has ended. The path may
			// meanwhile belong to a newer writer (the name was drawn again after an
			// abort): the engine tombstones an aborted pointer at its own pace, so
			// this "stale" tombstone is a legal call and must not touch the newer file.
			busy := false
			for _, s := range slots {
				// The pointer IS the path: a TombstoneFile on a path that a writer
				// currently has open is a call on that open writer's pointer, which
				// the DataStore contract forbids (the store cannot tell a stale copy
				// of the pointer from the live one). Such calls are not generated.
				if s != nil && s.path == p {
					busy = true
				}
			}
			if busy {
				if !c.Misuse {
					continue
				}
				// misuse: tombstone an open writer's pointer; every artefact must go,
				// nothing of that writer may become visible afterwards
				if err := fs.TombstoneFile(ctx, []byte(p)); err != nil {
					return violf("%s: TombstoneFile failed: %v", desc, err)
				}
				for _, s := range slots {
					if s != nil && s.path == p {
						s.doomed = true
					}
				}
				doomedNames[strings.TrimSuffix(filepath.Base(p), ".dat")] = true
				Ev.Class("tombstone-of-open-writer(misuse)")
				for _, suffix := range []string{".dat", ".tmp"} {
					if _, err := os.Stat(strings.TrimSuffix(p, ".dat") + suffix); err == nil {
						return violf("%s: after TombstoneFile (of a pointer whose writer is still open) an artefact %s of the pointer remains", desc, filepath.Base(strings.TrimSuffix(p, ".dat")+suffix))
					}
				}
				if v := verify(desc); v != nil {
					return v
				}
				continue
			}
			// a tombstone through an older copy of the pointer, after the name was
			// handed out again and that newer file was CLOSED, is simply a tombstone
			// of the file now living at that pointer
			stale := false
			if model[p] != nil && model[p].inc != hp.inc && model[p].state == "closed" {
				Ev.Class("tombstone-through-older-pointer-copy")
			}
			if stale {
				Ev.Class("stale-tombstone-on-reused-name")
			}
			if err := fs.TombstoneFile(ctx, []byte(p)); err != nil {
				return violf("%s: TombstoneFile failed: %v", desc, err)
			}
			if !stale {
				if m := model[p]; m != nil {
					m.state = "gone"
				}
				base := strings.TrimSuffix(p, ".dat")
				for _, suffix := range []string{".dat", ".tmp"} {
					if _, err := os.Stat(base + suffix); err == nil {
						return violf("%s: after TombstoneFile an artefact %s of the pointer remains", desc, filepath.Base(base+suffix))
					}
				}
			}
		case "open":
			if len(history) == 0 {
				continue
			}
			hp := history[op.Target%len(history)]
			p := hp.path
			m := model[p]
			if m == nil || m.state != "closed" || m.inc != hp.inc {
				continue
			}
			r, err := fs.OpenFile(ctx, []byte(p))
			if err != nil {
				return violf("%s: OpenFile of a closed file failed: %v", desc, err)
			}
			b, _ := io.ReadAll(r)
			r.Close()
			if !bytes.Equal(b, m.data) {
				return violf("%s: OpenFile returned %d bytes that differ from the %d bytes written", desc, len(b), len(m.data))
			}
		case "scan":
			if v := scan(desc); v != nil {
				return v
			}
		case "redundant":
			if len(closedWriters) == 0 {
				continue
			}
			s := closedWriters[op.Target%len(closedWriters)]
			for _, call := range op.Seq {
				switch call {
				case "close":
					s.w.Close() // an error is the expected answer; no effect on any file
				case "abort":
					if ab, ok := s.w.(interface{ Abort() error }); ok {
						ab.Abort()
					}
				case "write":
					s.w.Write([]byte("late bytes"))
				}
			}
			Ev.Class("redundant-calls-after-successful-close")
		case "burst":
			setDraws(op.Draws)
			var wg sync.WaitGroup
			type res struct {
				w   io.WriteCloser
				ptr string
				err error
			}
			out := make([]res, op.N)
			for i := 0; i < op.N; i++ {
				wg.Add(1)
				go func(i int) {
					defer wg.Done()
					w, ptr, err := fs.CreateFile(ctx)
					out[i] = res{w, string(ptr), err}
				}(i)
			}
			wg.Wait()
			seen := map[string]bool{}
			for _, r := range out {
				if r.err != nil {
					return violf("%s: CreateFile in a parallel burst failed: %v", desc, r.err)
				}
				if seen[r.ptr] {
					return violf("%s: two parallel CreateFile calls returned the same pointer %s", desc, filepath.Base(r.ptr))
				}
				seen[r.ptr] = true
				if m := model[r.ptr]; m != nil && m.state != "gone" {
					return violf("%s: CreateFile returned pointer %s which belongs to a live (%s) file", desc, filepath.Base(r.ptr), m.state)
				}
			}
			if len(op.Draws) > 0 {
				collided = true
			}
			// finish them: write a distinct marker and close half, abort half
			for i, r := range out {
				marker := []byte(fmt.Sprintf("burst-%d-%d", oi, i))
				incs++
				history = append(history, c16Ptr{r.ptr, incs})
				if i%2 == 0 {
					r.w.Write(marker)
					if err := r.w.Close(); err != nil {
						return violf("%s: Close of a burst writer failed: %v", desc, err)
					}
					model[r.ptr] = &c16File{state: "closed", inc: incs, data: marker}
				} else {
					r.w.Write(marker)
					r.w.(interface{ Abort() error }).Abort()
					fs.TombstoneFile(ctx, []byte(r.ptr))
					model[r.ptr] = &c16File{state: "gone", inc: incs}
				}
			}
		}
		if v := verify(desc); v != nil {
			return v
		}
	}
	if v := scan("the last operation"); v != nil {
		return v
	}
	if collided {
		Ev.Class("forced-collision-with-live-file")
		Ev.NonTrivial(jsonKey(c))
		if Ev.WantSample() {
			Ev.Sample(c)
		}
	}
	return nil
}

func TestC16(t *testing.T) {
	Ev.Rule = "case = 3-25 operations over up to 4 simultaneously open writers of one FileSystemDataStore in a temp dir (in a third of the cases rooted at a sub-directory whose path itself contains .dat / .tmp components, e.g. backup.dat/store): CreateFile with the candidate names forced from a 3-name pool through the verif hook (then fresh names), chunked Write of a complete / partial valid bloom file, of garbage or of nothing, Close, Abort, TombstoneFile of any earlier pointer whose writer has ended (as the engine does, including after another writer re-used the name), OpenFile, directory scan, a Close made to fail before publishing (its .tmp removed) whose owner aborts and tombstones only later, redundant Close/Abort/Write calls on a writer whose Close already succeeded (documented as harmless), and bursts of 2-6 parallel CreateFile calls on the same forced names. Oracle: model map path -> open / closed(bytes) / gone; after EVERY operation: every non-empty .dat on disk is a closed file, every closed file has exactly the bytes written, no open writer's file is visible, CreateFile never returns a live pointer, parallel CreateFiles return distinct pointers, OpenFile returns the exact bytes, TombstoneFile leaves no .dat/.tmp of its pointer, GetMaybeFilesForQuery(nil) lists exactly the closed valid bloom files. Non-trivial: a forced name collided with a live (open or closed) file; distinct by case."
	Ev.Assumptions = []string{"call sequences respect the DataStore contract the engine itself follows (one goroutine per writer, Close or Abort ends it, TombstoneFile only after the writer ended)", "a Close that fails is allowed; the file is then treated as never published"}
	runChecks(t, "ops", 500, 100000, genC16(), runC16)
}

var _ = sort.Strings

package harness

// Independent reference semantics of README "Search semantics", written over
// encoding/json's token stream (no gjson, no unexported package code):
//   - field paths are object keys joined with "."; array elements contribute
//     under the array's own path; intermediate container paths and every
//     "."-split prefix of a key are field-existence paths;
//   - leaf text: decoded string / raw number literal / "true" / "false"; null
//     contributes existence only;
//   - Field = some path equals; Token = some leaf tokenizes to it; FieldToken =
//     a leaf at exactly the path tokenizes to it; FieldRegex = pattern matches
//     the text of a leaf at or beneath the path; empty field path matches nothing;
//   - trees: nil expression / nil condition = true, empty OR = false, unknown
//     expression or condition type = false.

import (
	"bytes"
	"encoding/json"
	"fmt"
	"regexp"
	"sort"
	"strings"
	"unicode"
	"unicode/utf8"

	bs "github.com/danthegoodman1/bloomsearch"
)

type Leaf struct {
	Path    string
	Text    string
	HasText bool // false for null
}

type Emis struct {
	Paths  map[string]bool
	Leaves []Leaf
	// Uncertain: the documented semantics do not decide this row (top-level ""
	// key, strings that are not valid UTF-8 or contain surrogate escapes, which
	// JSON libraries decode differently). Such rows impose no obligation in
	// either direction.
	Uncertain bool
	Why       string
}

func joinPath(parent, key string) string {
	if parent == "" {
		return key
	}
	return parent + "." + key
}

// emissionsOf enumerates a marshaled row.
func emissionsOf(rowJSON []byte) (*Emis, error) {
	e := &Emis{Paths: map[string]bool{}}
	if !utf8.Valid(rowJSON) {
		e.Uncertain, e.Why = true, "invalid UTF-8 in marshaled row"
	}
	low := bytes.ToLower(rowJSON)
	if bytes.Contains(low, []byte(`\ud8`)) || bytes.Contains(low, []byte(`\ud9`)) || bytes.Contains(low, []byte(`\uda`)) ||
		bytes.Contains(low, []byte(`\udb`)) || bytes.Contains(low, []byte(`\udc`)) || bytes.Contains(low, []byte(`\udd`)) ||
		bytes.Contains(low, []byte(`\ude`)) || bytes.Contains(low, []byte(`\udf`)) {
		e.Uncertain, e.Why = true, "surrogate escape"
	}
	dec := json.NewDecoder(bytes.NewReader(rowJSON))
	dec.UseNumber()
	tok, err := dec.Token()
	if err != nil {
		return nil, err
	}
	if d, ok := tok.(json.Delim); !ok || d != '{' {
		return nil, fmt.Errorf("row is not a JSON object")
	}
	if err := e.walkObject(dec, "", true); err != nil {
		return nil, err
	}
	return e, nil
}

func (e *Emis) addPath(p string) {
	if p != "" {
		e.Paths[p] = true
	}
}

func (e *Emis) walkObject(dec *json.Decoder, path string, top bool) error {
	for dec.More() {
		kt, err := dec.Token()
		if err != nil {
			return err
		}
		key := kt.(string)
		if top && key == "" {
			e.Uncertain, e.Why = true, `top-level "" key`
		}
		// every "."-split prefix of the key is a field-existence path
		for i := 0; i < len(key); i++ {
			if key[i] == '.' {
				e.addPath(joinPath(path, key[:i]))
				if path == "" && key[:i] == "" {
					// joinPath("", "") == "" : skipped (empty path)
				}
			}
		}
		child := joinPath(path, key)
		if path != "" && key == "" {
			child = path + "."
		}
		if err := e.walkValue(dec, child); err != nil {
			return err
		}
	}
	_, err := dec.Token() // closing }
	return err
}

func (e *Emis) walkValue(dec *json.Decoder, path string) error {
	tok, err := dec.Token()
	if err != nil {
		return err
	}
	switch v := tok.(type) {
	case json.Delim:
		switch v {
		case '{':
			e.addPath(path)
			return e.walkObject(dec, path, false)
		case '[':
			e.addPath(path)
			for dec.More() {
				if err := e.walkValue(dec, path); err != nil {
					return err
				}
			}
			_, err := dec.Token()
			return err
		}
		return fmt.Errorf("unexpected delimiter %v", v)
	case string:
		e.leaf(path, v, true)
	case json.Number:
		e.leaf(path, string(v), true)
	case bool:
		if v {
			e.leaf(path, "true", true)
		} else {
			e.leaf(path, "false", true)
		}
	case nil:
		e.leaf(path, "", false)
	}
	return nil
}

func (e *Emis) leaf(path, text string, has bool) {
	if path == "" {
		return // empty path: nonexistent for every condition type
	}
	e.Paths[path] = true
	e.Leaves = append(e.Leaves, Leaf{Path: path, Text: text, HasText: has})
}

// ------------------------------------------------------------- tokenizers

type TokenizerSpec struct {
	Name   string
	Engine bs.ValueTokenizerFunc // what the engine is configured with
	Oracle func(string) []string // the oracle's own implementation of the same function
}

func refDefaultTokens(s string) []string { return strings.Fields(strings.ToLower(s)) }

func tokNonAlnum(s string) []string {
	return strings.FieldsFunc(strings.ToLower(s), func(r rune) bool { return !unicode.IsLetter(r) && !unicode.IsDigit(r) })
}

func tokBigrams(s string) []string {
	rs := []rune(s)
	if len(rs) < 2 {
		if len(rs) == 1 {
			return []string{s}
		}
		return nil
	}
	out := make([]string, 0, len(rs)-1)
	for i := 0; i+1 < len(rs) && i < 64; i++ {
		out = append(out, string(rs[i:i+2]))
	}
	return out
}

func tokDups(s string) []string {
	f := strings.Fields(s)
	out := []string{""}
	for _, w := range f {
		out = append(out, w, w)
	}
	return out
}

// tokAliasFields returns substrings of its input (strings.Fields aliases the
// input's backing array), the shape merge's entry-set indexing may retain.
func tokAliasFields(s string) []string { return strings.Fields(s) }

func tokPrefixes(s string) []string {
	var out []string
	for _, w := range strings.Fields(s) {
		out = append(out, w)
		n := 0
		for i := range w {
			if n == 3 {
				out = append(out, w[:i])
				break
			}
			n++
		}
	}
	return out
}

func tokNone(string) []string { return nil }

func tokIdentity(s string) []string { return []string{s} }

var tokenizers = map[string]TokenizerSpec{
	"default": {Name: "default", Engine: bs.BasicWhitespaceLowerTokenizer, Oracle: refDefaultTokens},
	// the same semantics through a closure: not pointer-equal to the built-in,
	// so the engine takes the generic (non fast-path) code with default semantics
	"default-wrapped": {Name: "default-wrapped", Engine: func(s string) []string { return bs.BasicWhitespaceLowerTokenizer(s) }, Oracle: refDefaultTokens},
	"identity":        {Name: "identity", Engine: tokIdentity, Oracle: tokIdentity},
	"nonalnum":        {Name: "nonalnum", Engine: tokNonAlnum, Oracle: tokNonAlnum},
	"bigrams":         {Name: "bigrams", Engine: tokBigrams, Oracle: tokBigrams},
	"dups":            {Name: "dups", Engine: tokDups, Oracle: tokDups},
	"fields":          {Name: "fields", Engine: tokAliasFields, Oracle: tokAliasFields},
	"prefixes":        {Name: "prefixes", Engine: tokPrefixes, Oracle: tokPrefixes},
	"none":            {Name: "none", Engine: tokNone, Oracle: tokNone},
}

var tokenizerNames = []string{"default", "default", "default-wrapped", "fields", "nonalnum", "identity", "bigrams", "dups", "prefixes", "none"}

// ------------------------------------------------------------- row facts

// RowSem is a row's emissions with tokens expanded under one tokenizer.
type RowSem struct {
	E      *Emis
	Tokens map[string]bool    // all tokens of all leaves
	FT     map[[2]string]bool // (exact leaf path, token)
}

func rowSem(e *Emis, tok func(string) []string) *RowSem {
	rs := &RowSem{E: e, Tokens: map[string]bool{}, FT: map[[2]string]bool{}}
	for _, l := range e.Leaves {
		if !l.HasText {
			continue
		}
		for _, t := range tok(l.Text) {
			rs.Tokens[t] = true
			rs.FT[[2]string{l.Path, t}] = true
		}
	}
	return rs
}

// ------------------------------------------------------------- tree evaluation

func evalBloom(rs *RowSem, e *bs.BloomExpression) bool {
	if e == nil {
		return true
	}
	switch e.ExpressionType {
	case bs.BloomExpressionCondition:
		c := e.Condition
		if c == nil {
			return true
		}
		switch c.Type {
		case bs.BloomField:
			return c.Field != "" && rs.E.Paths[c.Field]
		case bs.BloomToken:
			return rs.Tokens[c.Token]
		case bs.BloomFieldToken:
			return c.Field != "" && rs.FT[[2]string{c.Field, c.Token}]
		}
		return false
	case bs.BloomExpressionOr:
		for i := range e.Children {
			if evalBloom(rs, &e.Children[i]) {
				return true
			}
		}
		return false
	case bs.BloomExpressionAnd:
		for i := range e.Children {
			if !evalBloom(rs, &e.Children[i]) {
				return false
			}
		}
		return true
	}
	return false
}

// regexProblem reports why a regex tree cannot be evaluated: an invalid pattern
// or an unknown expression type anywhere in the tree ("" = evaluable).
func regexProblem(e *bs.RegexExpression) string {
	if e == nil {
		return ""
	}
	switch e.ExpressionType {
	case bs.RegexExpressionCondition:
		if e.Condition == nil {
			return ""
		}
		if _, err := regexp.Compile(e.Condition.Pattern); err != nil {
			return "invalid pattern " + e.Condition.Pattern
		}
		return ""
	case bs.RegexExpressionAnd, bs.RegexExpressionOr:
		for i := range e.Children {
			if p := regexProblem(&e.Children[i]); p != "" {
				return p
			}
		}
		return ""
	}
	return "unknown regex expression type " + string(e.ExpressionType)
}

func evalRegex(rs *RowSem, e *bs.RegexExpression) bool {
	if e == nil {
		return true
	}
	switch e.ExpressionType {
	case bs.RegexExpressionCondition:
		c := e.Condition
		if c == nil {
			return true
		}
		if c.Field == "" {
			return false
		}
		re, err := regexp.Compile(c.Pattern)
		if err != nil {
			return false
		}
		prefix := c.Field + "."
		for _, l := range rs.E.Leaves {
			if !l.HasText {
				continue
			}
			if l.Path != c.Field && !strings.HasPrefix(l.Path, prefix) {
				continue
			}
			if re.MatchString(l.Text) {
				return true
			}
		}
		return false
	case bs.RegexExpressionOr:
		for i := range e.Children {
			if evalRegex(rs, &e.Children[i]) {
				return true
			}
		}
		return false
	case bs.RegexExpressionAnd:
		for i := range e.Children {
			if !evalRegex(rs, &e.Children[i]) {
				return false
			}
		}
		return true
	}
	return false
}

// rowMatches: bloom AND regex expression of a query under the reference semantics.
func rowMatches(rs *RowSem, q *bs.Query) bool {
	if q == nil {
		return true
	}
	if q.Bloom != nil && !evalBloom(rs, q.Bloom.Expression) {
		return false
	}
	if q.Regex != nil && !evalRegex(rs, q.Regex.Expression) {
		return false
	}
	return true
}

func sortedKeys[V any](m map[string]V) []string {
	out := make([]string, 0, len(m))
	for k := range m {
		out = append(out, k)
	}
	sort.Strings(out)
	return out
}

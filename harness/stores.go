package harness

// Harness-owned stores: a cloneable in-memory DataStore, and Trace, a wrapper
// around any DataStore/MetaStore pair that records a totally ordered call log,
// lets a per-call hook inject failures / block calls (gates) / add latency,
// and accounts for every read handle (open/close counts, use after close,
// concurrent use, read ranges, gauge of in-progress reads).

import (
	"bytes"
	"context"
	"errors"
	"fmt"
	"io"
	"iter"
	"os"
	"sort"
	"sync"
	"sync/atomic"
	"time"

	bs "github.com/danthegoodman1/bloomsearch"
)

// ---------------------------------------------------------------- MemDataStore

type MemDataStore struct {
	mu         sync.Mutex
	files      map[string][]byte
	next       int
	NoAbort    bool // writers do not implement Abort
	Tombstones map[string]int
	Prefix     string
}

func NewMemDataStore(noAbort bool) *MemDataStore {
	return &MemDataStore{files: map[string][]byte{}, Tombstones: map[string]int{}, NoAbort: noAbort, Prefix: "mem"}
}

func (s *MemDataStore) Clone() *MemDataStore {
	s.mu.Lock()
	defer s.mu.Unlock()
	c := &MemDataStore{files: map[string][]byte{}, Tombstones: map[string]int{}, NoAbort: s.NoAbort, next: s.next, Prefix: s.Prefix}
	for k, v := range s.files {
		c.files[k] = append([]byte(nil), v...)
	}
	for k, v := range s.Tombstones {
		c.Tombstones[k] = v
	}
	return c
}

func (s *MemDataStore) Files() map[string][]byte {
	s.mu.Lock()
	defer s.mu.Unlock()
	out := map[string][]byte{}
	for k, v := range s.files {
		out[k] = append([]byte(nil), v...)
	}
	return out
}

func (s *MemDataStore) Put(ptr string, b []byte) {
	s.mu.Lock()
	s.files[ptr] = append([]byte(nil), b...)
	s.mu.Unlock()
}

func (s *MemDataStore) Get(ptr string) ([]byte, bool) {
	s.mu.Lock()
	defer s.mu.Unlock()
	b, ok := s.files[ptr]
	return b, ok
}

func (s *MemDataStore) NewPointer() string {
	s.mu.Lock()
	defer s.mu.Unlock()
	s.next++
	return fmt.Sprintf("%s-%04d", s.Prefix, s.next)
}

type memWriter struct {
	s      *MemDataStore
	ptr    string
	buf    bytes.Buffer
	closed bool
}

func (w *memWriter) Write(p []byte) (int, error) {
	if w.closed {
		return 0, errors.New("memstore: write after close")
	}
	return w.buf.Write(p)
}

func (w *memWriter) Close() error {
	if w.closed {
		return errors.New("memstore: double close")
	}
	w.closed = true
	w.s.mu.Lock()
	w.s.files[w.ptr] = append([]byte(nil), w.buf.Bytes()...)
	w.s.mu.Unlock()
	return nil
}

type memAbortWriter struct{ *memWriter }

func (w memAbortWriter) Abort() error {
	if w.closed {
		return nil
	}
	w.closed = true
	return nil
}

func (s *MemDataStore) CreateFile(ctx context.Context) (io.WriteCloser, []byte, error) {
	ptr := s.NewPointer()
	w := &memWriter{s: s, ptr: ptr}
	if s.NoAbort {
		return w, []byte(ptr), nil
	}
	return memAbortWriter{w}, []byte(ptr), nil
}

type memReader struct {
	*bytes.Reader
}

func (memReader) Close() error { return nil }

func (s *MemDataStore) OpenFile(ctx context.Context, ptr []byte) (io.ReadSeekCloser, error) {
	s.mu.Lock()
	b, ok := s.files[string(ptr)]
	s.mu.Unlock()
	if !ok {
		return nil, fmt.Errorf("memstore: open %s: %w", ptr, os.ErrNotExist)
	}
	return memReader{bytes.NewReader(b)}, nil
}

func (s *MemDataStore) TombstoneFile(ctx context.Context, ptr []byte) error {
	s.mu.Lock()
	delete(s.files, string(ptr))
	s.Tombstones[string(ptr)]++
	s.mu.Unlock()
	return nil
}

// ------------------------------------------------------------------- Trace

type CallInfo struct {
	Kind    string // CreateFile Write Close Abort OpenFile Read Seek RClose Tombstone Update IterStart IterYield IterEnd
	Seq     int    // global ordinal (0-based) over all calls
	KindSeq int    // ordinal among calls of this kind
	Ptr     string
	Size    int   // Write/Read: len(p)
	Off     int64 // Read: offset the read starts at; Seek: target
	Handle  int   // reader/writer id
	Ctx     context.Context
	// set by the Before hook:
	ShortWrite int // Write only: write this many bytes before failing with the hook's error
	// FailAfter (Close only): perform the real call first, then report the
	// hook's error — a publish that took effect but reported failure (e.g. the
	// directory fsync after the rename failed).
	FailAfter bool
	// CorruptRead (Read only, set by a Before hook that returns nil): the call
	// succeeds but one bit of the returned data is flipped — storage that
	// silently corrupts, to be caught by the format's checksums.
	CorruptRead bool
}

type CallRec struct {
	Kind    string `json:"kind"`
	Seq     int    `json:"seq"`
	KindSeq int    `json:"kseq"`
	Ptr     string `json:"ptr,omitempty"`
	Size    int    `json:"size,omitempty"`
	Off     int64  `json:"off,omitempty"`
	N       int    `json:"n,omitempty"`
	Handle  int    `json:"h,omitempty"`
	Err     string `json:"err,omitempty"`
	Inj     bool   `json:"inj,omitempty"`
	W0      int64  `json:"w0,omitempty"` // wall clock at call entry (unix nanoseconds); only for reports and time-bound oracles
	T0      int64  `json:"t0"`
	T1      int64  `json:"t1"`
	Writes  int    `json:"writes,omitempty"`  // Update
	Deletes int    `json:"deletes,omitempty"` // Update
	Ptrs    []string `json:"ptrs,omitempty"`  // Update: write pointers then delete pointers
}

type HandleRec struct {
	ID        int
	Ptr       string
	Closes    int
	UseAfter  int // operations after close
	Concurrent int // times two goroutines were inside the handle at once
	inUse     int32
	closed    int32
	Ranges    [][2]int64 // byte ranges read [start,end)
	pos       int64
}

type Trace struct {
	Data bs.DataStore
	Meta bs.MetaStore

	// Before runs before each call on the calling goroutine: it may block
	// (gate) and may return an error to inject (the real call is then skipped).
	Before func(*CallInfo) error
	// After runs after each call with its outcome.
	After func(*CallInfo, error)

	mu       sync.Mutex
	calls    []CallRec
	kindSeq  map[string]int
	clock    int64
	handles  []*HandleRec
	nextH    int
	readsNow int32
	MaxReads int32 // max simultaneously in-progress Read/Seek/OpenFile calls on read handles
	// ReadGauge kinds counted: OpenFile, Read, Seek
	openIters int32
	IterOpen  int32
	iterOK    bool
}

func NewTrace(data bs.DataStore, meta bs.MetaStore) *Trace {
	return &Trace{Data: data, Meta: meta, kindSeq: map[string]int{}}
}

func (t *Trace) tick() int64 { return atomic.AddInt64(&t.clock, 1) }

func (t *Trace) begin(kind, ptr string, size int, off int64, handle int, ctx context.Context) (*CallInfo, int, error) {
	t.mu.Lock()
	ci := &CallInfo{Kind: kind, Seq: len(t.calls), KindSeq: t.kindSeq[kind], Ptr: ptr, Size: size, Off: off, Handle: handle, Ctx: ctx}
	t.kindSeq[kind]++
	t.calls = append(t.calls, CallRec{Kind: kind, Seq: ci.Seq, KindSeq: ci.KindSeq, Ptr: ptr, Size: size, Off: off, Handle: handle, W0: time.Now().UnixNano(), T0: t.tick(), T1: -1})
	idx := ci.Seq
	before := t.Before
	t.mu.Unlock()
	var err error
	if before != nil {
		err = before(ci)
	}
	return ci, idx, err
}

func (t *Trace) end(ci *CallInfo, idx int, n int, err error, injected bool) {
	t.mu.Lock()
	r := &t.calls[idx]
	r.N = n
	r.Inj = injected
	if err != nil {
		r.Err = err.Error()
	}
	r.T1 = t.tick()
	after := t.After
	t.mu.Unlock()
	if after != nil {
		after(ci, err)
	}
}

func (t *Trace) Calls() []CallRec {
	t.mu.Lock()
	defer t.mu.Unlock()
	return append([]CallRec(nil), t.calls...)
}

func (t *Trace) NumCalls() int {
	t.mu.Lock()
	defer t.mu.Unlock()
	return len(t.calls)
}

func (t *Trace) Handles() []HandleRec {
	t.mu.Lock()
	defer t.mu.Unlock()
	out := make([]HandleRec, len(t.handles))
	for i, h := range t.handles {
		out[i] = HandleRec{ID: h.ID, Ptr: h.Ptr, Closes: h.Closes, UseAfter: h.UseAfter, Concurrent: h.Concurrent, Ranges: append([][2]int64(nil), h.Ranges...)}
	}
	return out
}

func (t *Trace) ResetLog() {
	t.mu.Lock()
	t.calls = nil
	t.kindSeq = map[string]int{}
	t.handles = nil
	atomic.StoreInt32(&t.MaxReads, 0)
	t.mu.Unlock()
}

// ---- DataStore side

type traceWriter struct {
	t   *Trace
	w   io.WriteCloser
	ptr string
	id  int
}

func (t *Trace) CreateFile(ctx context.Context) (io.WriteCloser, []byte, error) {
	ci, idx, err := t.begin("CreateFile", "", 0, 0, 0, ctx)
	if err != nil {
		t.end(ci, idx, 0, err, true)
		return nil, nil, err
	}
	w, ptr, err := t.Data.CreateFile(ctx)
	t.mu.Lock()
	t.nextH++
	id := t.nextH
	t.calls[idx].Ptr = string(ptr)
	t.calls[idx].Handle = id
	t.mu.Unlock()
	ci.Ptr = string(ptr)
	t.end(ci, idx, 0, err, false)
	if err != nil {
		return nil, nil, err
	}
	tw := &traceWriter{t: t, w: w, ptr: string(ptr), id: id}
	if _, ok := w.(interface{ Abort() error }); ok {
		return traceAbortWriter{tw}, ptr, nil
	}
	return tw, ptr, nil
}

func (w *traceWriter) Write(p []byte) (int, error) {
	ci, idx, err := w.t.begin("Write", w.ptr, len(p), 0, w.id, nil)
	if err != nil {
		n := 0
		if ci.ShortWrite > 0 && ci.ShortWrite < len(p) {
			n, _ = w.w.Write(p[:ci.ShortWrite])
		}
		w.t.end(ci, idx, n, err, true)
		return n, err
	}
	n, err := w.w.Write(p)
	w.t.end(ci, idx, n, err, false)
	return n, err
}

func (w *traceWriter) Close() error {
	ci, idx, err := w.t.begin("Close", w.ptr, 0, 0, w.id, nil)
	if err != nil {
		if ci.FailAfter {
			w.w.Close()
		}
		w.t.end(ci, idx, 0, err, true)
		return err
	}
	err = w.w.Close()
	w.t.end(ci, idx, 0, err, false)
	return err
}

type traceAbortWriter struct{ *traceWriter }

func (w traceAbortWriter) Abort() error {
	ci, idx, err := w.t.begin("Abort", w.ptr, 0, 0, w.id, nil)
	if err != nil {
		w.t.end(ci, idx, 0, err, true)
		return err
	}
	err = w.w.(interface{ Abort() error }).Abort()
	w.t.end(ci, idx, 0, err, false)
	return err
}

func (t *Trace) TombstoneFile(ctx context.Context, ptr []byte) error {
	ci, idx, err := t.begin("Tombstone", string(ptr), 0, 0, 0, ctx)
	if err != nil {
		t.end(ci, idx, 0, err, true)
		return err
	}
	err = t.Data.TombstoneFile(ctx, ptr)
	t.end(ci, idx, 0, err, false)
	return err
}

type traceReader struct {
	t *Trace
	r io.ReadSeekCloser
	h *HandleRec
}

func (t *Trace) gaugeIn() {
	n := atomic.AddInt32(&t.readsNow, 1)
	for {
		m := atomic.LoadInt32(&t.MaxReads)
		if n <= m || atomic.CompareAndSwapInt32(&t.MaxReads, m, n) {
			break
		}
	}
}

func (t *Trace) gaugeOut() { atomic.AddInt32(&t.readsNow, -1) }

func (t *Trace) OpenFile(ctx context.Context, ptr []byte) (io.ReadSeekCloser, error) {
	t.gaugeIn()
	defer t.gaugeOut()
	ci, idx, err := t.begin("OpenFile", string(ptr), 0, 0, 0, ctx)
	if err != nil {
		t.end(ci, idx, 0, err, true)
		return nil, err
	}
	r, err := t.Data.OpenFile(ctx, ptr)
	if err != nil {
		t.end(ci, idx, 0, err, false)
		return nil, err
	}
	t.mu.Lock()
	t.nextH++
	h := &HandleRec{ID: t.nextH, Ptr: string(ptr)}
	t.handles = append(t.handles, h)
	t.calls[idx].Handle = h.ID
	t.mu.Unlock()
	ci.Handle = h.ID
	t.end(ci, idx, 0, nil, false)
	return &traceReader{t: t, r: r, h: h}, nil
}

func (r *traceReader) enter() {
	if atomic.AddInt32(&r.h.inUse, 1) > 1 {
		r.t.mu.Lock()
		r.h.Concurrent++
		r.t.mu.Unlock()
	}
	if atomic.LoadInt32(&r.h.closed) != 0 {
		r.t.mu.Lock()
		r.h.UseAfter++
		r.t.mu.Unlock()
	}
}

func (r *traceReader) exit() { atomic.AddInt32(&r.h.inUse, -1) }

func (r *traceReader) Read(p []byte) (int, error) {
	r.enter()
	defer r.exit()
	r.t.gaugeIn()
	defer r.t.gaugeOut()
	ci, idx, err := r.t.begin("Read", r.h.Ptr, len(p), r.h.pos, r.h.ID, nil)
	if err != nil {
		r.t.end(ci, idx, 0, err, true)
		return 0, err
	}
	n, err := r.r.Read(p)
	if ci.CorruptRead && n > 0 {
		p[n/2] ^= 0x10
	}
	if n > 0 {
		r.t.mu.Lock()
		r.h.Ranges = append(r.h.Ranges, [2]int64{r.h.pos, r.h.pos + int64(n)})
		r.t.mu.Unlock()
		r.h.pos += int64(n)
	}
	r.t.end(ci, idx, n, err, false)
	return n, err
}

func (r *traceReader) Seek(off int64, whence int) (int64, error) {
	r.enter()
	defer r.exit()
	r.t.gaugeIn()
	defer r.t.gaugeOut()
	ci, idx, err := r.t.begin("Seek", r.h.Ptr, whence, off, r.h.ID, nil)
	if err != nil {
		r.t.end(ci, idx, 0, err, true)
		return 0, err
	}
	pos, err := r.r.Seek(off, whence)
	if err == nil {
		r.h.pos = pos
	}
	r.t.end(ci, idx, 0, err, false)
	return pos, err
}

func (r *traceReader) Close() error {
	r.enter()
	defer r.exit()
	ci, idx, herr := r.t.begin("RClose", r.h.Ptr, 0, 0, r.h.ID, nil)
	r.t.mu.Lock()
	r.h.Closes++
	r.t.mu.Unlock()
	atomic.StoreInt32(&r.h.closed, 1)
	err := r.r.Close() // the handle is always really closed; a hook error is only reported
	if herr != nil {
		err = herr
	}
	r.t.end(ci, idx, 0, err, herr != nil)
	return err
}

// ---- MetaStore side

func (t *Trace) Update(ctx context.Context, writes []bs.WriteOperation, deletes []bs.DeleteOperation) error {
	ci, idx, err := t.begin("Update", "", 0, 0, 0, ctx)
	t.mu.Lock()
	rec := &t.calls[idx]
	rec.Writes, rec.Deletes = len(writes), len(deletes)
	for _, w := range writes {
		rec.Ptrs = append(rec.Ptrs, string(w.FilePointerBytes))
	}
	for _, d := range deletes {
		rec.Ptrs = append(rec.Ptrs, string(d.FilePointerBytes))
	}
	t.mu.Unlock()
	if err != nil {
		t.end(ci, idx, 0, err, true)
		return err
	}
	err = t.Meta.Update(ctx, writes, deletes)
	t.end(ci, idx, 0, err, false)
	return err
}

func (t *Trace) GetMaybeFilesForQuery(ctx context.Context, q *bs.QueryPrefilter) iter.Seq2[bs.MaybeFile, error] {
	return func(yield func(bs.MaybeFile, error) bool) {
		atomic.AddInt32(&t.IterOpen, 1)
		defer atomic.AddInt32(&t.IterOpen, -1)
		ci, idx, err := t.begin("IterStart", "", 0, 0, 0, ctx)
		t.end(ci, idx, 0, err, err != nil)
		if err != nil {
			yield(bs.MaybeFile{}, err)
			return
		}
		for f, ferr := range t.Meta.GetMaybeFilesForQuery(ctx, q) {
			ci, idx, err := t.begin("IterYield", string(f.PointerBytes), 0, 0, 0, ctx)
			if err != nil {
				t.end(ci, idx, 0, err, true)
				yield(bs.MaybeFile{}, err)
				return
			}
			t.end(ci, idx, 0, ferr, false)
			if !yield(f, ferr) {
				return
			}
			if ferr != nil {
				return
			}
		}
		ci, idx, _ = t.begin("IterEnd", "", 0, 0, 0, ctx)
		t.end(ci, idx, 0, nil, false)
	}
}

var _ bs.DataStore = (*Trace)(nil)
var _ bs.MetaStore = (*Trace)(nil)
var _ bs.DataStore = (*MemDataStore)(nil)

// ------------------------------------------------- conforming MetaStore wrappers

// MetaVariant wraps a MetaStore with behaviours the MetaStore contract allows:
// ignoring the prefilter, yielding files / blocks in another order.
type MetaVariant struct {
	Inner bs.MetaStore
	Mode  string // "ignore-prefilter", "desc-blocks", "reverse-files", "rotate-blocks"
}

func (m *MetaVariant) Update(ctx context.Context, w []bs.WriteOperation, d []bs.DeleteOperation) error {
	return m.Inner.Update(ctx, w, d)
}

func (m *MetaVariant) GetMaybeFilesForQuery(ctx context.Context, q *bs.QueryPrefilter) iter.Seq2[bs.MaybeFile, error] {
	return func(yield func(bs.MaybeFile, error) bool) {
		inq := q
		if m.Mode == "ignore-prefilter" {
			inq = nil
		}
		var files []bs.MaybeFile
		for f, err := range m.Inner.GetMaybeFilesForQuery(ctx, inq) {
			if err != nil {
				yield(bs.MaybeFile{}, err)
				return
			}
			files = append(files, f)
		}
		sort.Slice(files, func(i, j int) bool { return string(files[i].PointerBytes) < string(files[j].PointerBytes) })
		if m.Mode == "reverse-files" {
			for i, j := 0, len(files)-1; i < j; i, j = i+1, j-1 {
				files[i], files[j] = files[j], files[i]
			}
		}
		for _, f := range files {
			blocks := append([]bs.DataBlockMetadata(nil), f.Metadata.DataBlocks...)
			switch m.Mode {
			case "desc-blocks":
				sort.Slice(blocks, func(i, j int) bool { return blocks[i].RowDataOffset > blocks[j].RowDataOffset })
			case "rotate-blocks":
				if len(blocks) > 1 {
					blocks = append(blocks[1:], blocks[0])
				}
			}
			f.Metadata.DataBlocks = blocks
			if !yield(f, nil) {
				return
			}
		}
	}
}


// ScanMetaStore is a MetaStore that IS the DataStore (the in-memory counterpart
// of FileSystemDataStore used as MetaStore): the referenced files are whatever
// complete bloom files the DataStore holds (a file becomes visible when its
// writer's Close publishes it), metadata is read from each file's own footer,
// and Update removes the deleted files. Cloneable with its MemDataStore, which
// is what the per-position fault enumeration needs.
type ScanMetaStore struct{ DS *MemDataStore }

func (m *ScanMetaStore) GetMaybeFilesForQuery(ctx context.Context, q *bs.QueryPrefilter) iter.Seq2[bs.MaybeFile, error] {
	return func(yield func(bs.MaybeFile, error) bool) {
		files := m.DS.Files()
		ptrs := make([]string, 0, len(files))
		for p := range files {
			ptrs = append(ptrs, p)
		}
		sort.Strings(ptrs)
		for _, p := range ptrs {
			meta, _, err := bs.ReadFileMetadata(bytes.NewReader(files[p]))
			if err != nil {
				continue // not (yet) a complete bloom file
			}
			if !yield(bs.MaybeFile{PointerBytes: []byte(p), Metadata: *meta}, nil) {
				return
			}
		}
	}
}

func (m *ScanMetaStore) Update(ctx context.Context, writes []bs.WriteOperation, deletes []bs.DeleteOperation) error {
	m.DS.mu.Lock()
	defer m.DS.mu.Unlock()
	for _, d := range deletes {
		delete(m.DS.files, string(d.FilePointerBytes))
	}
	return nil
}

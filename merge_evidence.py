#!/usr/bin/env python3
"""Merge per-shard evidence parts (evidence/.parts/Cxx.k.json) into evidence/Cxx.json.

distinct_nontrivial is the size of the union of the shards' hash sets, so it
stays a count of DISTINCT non-trivial cases across processes."""
import json, os, sys

evdir, prop, shards = sys.argv[1], sys.argv[2], int(sys.argv[3])
parts = []
for k in range(shards):
    p = os.path.join(evdir, ".parts", f"{prop}.{k}.json")
    if os.path.exists(p):
        with open(p) as f:
            parts.append(json.load(f))
if not parts:
    sys.exit(1)

out = {k: parts[0][k] for k in ("property_id", "tier", "seed", "level", "assumptions")}
cov = {}
hashes = set()
classes = {}
samples = []
numeric = {}
other = {}
known = {}
for p in parts:
    c = p["coverage"]
    hashes.update(c.get("_hashes", []))
    for k, v in c.get("classes", {}).items():
        classes[k] = classes.get(k, 0) + v
    for s in c.get("samples", []):
        if len(samples) < 6:
            samples.append(s)
    for k, v in c.get("known_findings_observed", {}).items():
        known[k] = known.get(k, 0) + v
    for k, v in c.items():
        if k in ("_hashes", "classes", "samples", "distinct_nontrivial", "rule", "known_findings_observed"):
            continue
        if isinstance(v, bool):
            other[k] = v
        elif isinstance(v, (int, float)):
            numeric[k] = numeric.get(k, 0) + v
        else:
            other.setdefault(k, v)
cov.update(other)
cov.update(numeric)
cov["distinct_nontrivial"] = len(hashes)
cov["rule"] = parts[0]["coverage"].get("rule", "")
cov["classes"] = classes
cov["samples"] = samples
cov["shards"] = len(parts)
if known:
    cov["known_findings_observed"] = known
out["coverage"] = cov
out["wall_s"] = max(p.get("wall_s", 0) for p in parts)
out["violations"] = sum(p.get("violations", 0) for p in parts)
tmp = os.path.join(evdir, f"{prop}.json.tmp")
with open(tmp, "w") as f:
    json.dump(out, f, indent=1)
os.replace(tmp, os.path.join(evdir, f"{prop}.json"))
if len(parts) != shards:
    sys.exit(1)
